#!/bin/sh
# Build the framework from files on disk only (offline). The per-tree harness
# binaries are (re)built by ./check itself from /repo's current working tree;
# building them here only warms the caches.
set -e
cd "$(dirname "$0")"
export GOFLAGS=-mod=mod GOPROXY=off GOSUMDB=off GOTOOLCHAIN=local
export PATH=/opt/veriftools/go1.26.8/bin:$PATH
python3 - <<'PY'
import sys, os
sys.path.insert(0, "lib")
import simlib
print("simgo:", simlib.build_simgo(print))
print("harness:", simlib.build("plain"))
print("harness (race):", simlib.build("race"))
PY
