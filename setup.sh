#!/bin/sh
# Build the framework from files on disk only (offline). The per-tree harness
# binary is built by ./check itself from /repo's current working tree.
set -e
cd "$(dirname "$0")"
export GOFLAGS=-mod=mod GOPROXY=off GOSUMDB=off GOTOOLCHAIN=local
export PATH=/opt/veriftools/go1.26.8/bin:$PATH
python3 - <<'PY'
import sys, os
sys.path.insert(0, "lib")
import simlib
print("simgo:", simlib.build_simgo(print))
print("harness:", simlib.build("plain"))
PY
