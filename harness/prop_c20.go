//go:build go1.23

package verifsim

import (
	"fmt"
	"os"
	"path/filepath"
	"strings"
)

// C20 — lines reach each program in order, exactly once, across reloads.
//
// SUT: the real runtime (fan-out, CompileAndRun, UnloadProgram) and VMs. A
// feeder streams lines 1..N while a loader swaps between versions of a
// witness program whose first declarations are identical (same place), plus
// a per-version counter:
//
//	gauge last; counter seen by n; counter byver by v
//	/^(\d+)$/ { last = $n; seen[$n]++; byver["vK"]++ }
//
// Oracles: the trajectory of `last` sampled by the controller after every
// scheduler step never goes backwards and ends at N; seen[n] == 1 for every n;
// the byver counters add up to N.

func init() { register("C20", propC20) }

func c20Source(k int, pad int) string {
	// The padding keeps the program text of every version different while the
	// shared declarations stay on the same lines.
	return fmt.Sprintf("gauge last\ncounter seen by n\ncounter byver by v\n/^(?P<n>\\d+)$/ {\n  last = $n\n  seen[$n]++\n  byver[\"v%d\"]++\n%s}\n", k, strings.Repeat("  # pad\n", pad))
}

func propC20(e *Env) {
	dir := filepath.Join(e.Dir, "progs")
	os.Mkdir(dir, 0o755)
	e.S.StmtPreempt = e.Choose("knob", 4) != 0 // mostly statement-level preemption
	if e.Choose("knob", 2) == 1 {
		e.S.Quanta = []int{0, 0, 1, 1, 2, 3, 5, 40}
	}
	prog := "w.mtail"
	N := 4 + e.Choose("gen", 28)
	K := 1 + e.Choose("gen", 4) // reloads
	os.WriteFile(filepath.Join(dir, prog), []byte(c20Source(0, 0)), 0o644)
	r := newRtRig(e, dir, swarmRtOpts(e)...)
	if !r.quiesce() {
		return
	}
	if !r.started || r.err != nil {
		e.Broken("runtime.New: %v", r.err)
		return
	}
	var lines []string
	for i := 1; i <= N; i++ {
		lines = append(lines, fmt.Sprint(i))
	}
	fedDone := false
	r.feed("log", lines, &fedDone)
	// the loader: K reloads, each started when the feeder has delivered a chosen number of lines
	at := make([]int, K)
	for i := range at {
		at[i] = e.Choose("gen", N+1)
	}
	relRunning, relDone := false, 0
	startReload := func(k int) {
		relRunning = true
		fedAtStart := r.fed
		e.S.Go("reload", func() {
			os.WriteFile(filepath.Join(dir, prog), []byte(c20Source(k, k)), 0o644)
			r.rt.LoadAllPrograms()
			relRunning = false
			relDone++
			if r.fed != fedAtStart {
				e.Probe("reload_overlapped_lines")
			}
		})
	}
	next := 0
	lastSeen := int64(0)
	var traj []int64
	for steps := 0; steps < 3000000; steps++ {
		if next < K && !relRunning && r.fed >= at[next] {
			startReload(next + 1)
			next++
		}
		if !e.S.Step() {
			if next < K && !relRunning {
				startReload(next + 1)
				next++
				continue
			}
			break
		}
		if v, ok := peekInt(r.store, "last", prog); ok {
			if v != lastSeen {
				traj = append(traj, v)
			}
			if v < lastSeen {
				e.Fail("order-inversion", "N=%d lines, %d reloads: the gauge written by every line went backwards from %d to %d (an earlier line's write landed after a later line's) — trajectory %v", N, K, lastSeen, v, traj)
				break
			}
			lastSeen = v
		}
		if e.S.OverBudget() {
			break
		}
	}
	if e.Failed() {
		return
	}
	if !fedDone || relRunning || relDone != K {
		e.Fail("stuck", "feeder done=%v, reloads finished %d of %d; live: %s", fedDone, relDone, K, liveString(e))
		return
	}
	if !r.shutdown() {
		return
	}
	v := peekStore(r.store)
	if got, _ := v.intOf("last", prog); got != int64(N) {
		e.Fail("order-inversion", "N=%d lines, %d reloads: after everything finished the gauge holds %d, the last line wrote %d", N, K, got, N)
		return
	}
	for i := 1; i <= N; i++ {
		c, ok := v.intOf("seen", prog, fmt.Sprint(i))
		switch {
		case !ok || c == 0:
			e.Fail("line-not-processed", "N=%d lines, %d reloads (started after lines %v): seen[%d] is missing from the exported metric — the effect of line %d was lost", N, K, at, i, i)
			return
		case c > 1:
			e.Fail("line-processed-twice", "N=%d lines, %d reloads: seen[%d] == %d", N, K, i, c)
			return
		}
	}
	var sum int64
	for k := 0; k <= K; k++ {
		c, _ := v.intOf("byver", prog, fmt.Sprintf("v%d", k))
		sum += c
	}
	if sum != int64(N) {
		cls := "line-not-processed"
		if sum > int64(N) {
			cls = "line-processed-twice"
		}
		e.Fail(cls, "N=%d lines, %d reloads: the per-version counters add up to %d", N, K, sum)
		return
	}
	e.R.Nontrivial = e.R.Probes["reload_overlapped_lines"] > 0
	e.R.Key = fmt.Sprintf("%d|%v|%x", N, at, e.S.Signature())
	e.R.Sample = map[string]any{"lines": N, "reload_after_line": at, "gauge_trajectory_len": len(traj)}
}
