//go:build go1.23

package verifsim

import (
	"context"
	"fmt"
	"strings"
	"time"

	"github.com/google/mtail/internal/logline"
	"github.com/google/mtail/internal/metrics"
	"github.com/google/mtail/internal/metrics/datum"
	"github.com/google/mtail/internal/runtime/compiler"
	"github.com/google/mtail/internal/runtime/vm"
)

// C07 — timestamps follow strptime/settime and default to processing time.
//
// SUT: the real compiler, vm.VM (Strptime / Settime / Timestamp, ParseTime,
// the parse memo) and datum stamping, under the bubble's fake clock: the
// "current time" and "current year" the code reads are the simulator's, and
// the harness moves them (random advances, jumps over New Year) between lines.
// The whole scenario runs on the controller: one VM is single-threaded code.
//
// Oracle: an independent model built on time.Parse / ParseInLocation and the
// simulated clock.

func init() { register("C07", propC07) }

type c07Layout struct {
	layout string
	noYear bool
	gen    func(e *Env) string // a value that parses under this layout
}

func c07Date(e *Env) (y, mo, d, h, mi, s int) {
	return 1999 + e.Choose("gen", 4), 1 + e.Choose("gen", 12), 1 + e.Choose("gen", 12), e.Choose("gen", 24), e.Choose("gen", 60), e.Choose("gen", 60)
}

var c07Layouts = []c07Layout{
	{"2006-01-02 15:04:05", false, func(e *Env) string {
		y, mo, d, h, mi, s := c07Date(e)
		return fmt.Sprintf("%04d-%02d-%02d %02d:%02d:%02d", y, mo, d, h, mi, s)
	}},
	// the same strings, read as year-day-month
	{"2006-02-01 15:04:05", false, func(e *Env) string {
		y, mo, d, h, mi, s := c07Date(e)
		return fmt.Sprintf("%04d-%02d-%02d %02d:%02d:%02d", y, d, mo, h, mi, s)
	}},
	{"2006-01-02T15:04:05Z07:00", false, func(e *Env) string {
		y, mo, d, h, mi, s := c07Date(e)
		z := []string{"Z", "+02:00", "-07:00"}[e.Choose("gen", 3)]
		return fmt.Sprintf("%04d-%02d-%02dT%02d:%02d:%02d%s", y, mo, d, h, mi, s, z)
	}},
	{"Jan _2 15:04:05", true, func(e *Env) string {
		_, mo, d, h, mi, s := c07Date(e)
		return fmt.Sprintf("%s %2d %02d:%02d:%02d", time.Month(mo).String()[:3], d, h, mi, s)
	}},
	// no year, but a zone offset in the value
	{"Jan _2 15:04:05 -0700", true, func(e *Env) string {
		_, mo, d, h, mi, s := c07Date(e)
		return fmt.Sprintf("%s %2d %02d:%02d:%02d %s", time.Month(mo).String()[:3], d, h, mi, s, []string{"+0000", "-0700", "+0530"}[e.Choose("gen", 3)])
	}},
	{"2006-01-02 15:04:05.000", false, func(e *Env) string {
		y, mo, d, h, mi, s := c07Date(e)
		return fmt.Sprintf("%04d-%02d-%02d %02d:%02d:%02d.%03d", y, mo, d, h, mi, s, e.Choose("gen", 1000))
	}},
	{"02/Jan/2006:15:04:05 -0700", false, func(e *Env) string {
		y, mo, d, h, mi, s := c07Date(e)
		return fmt.Sprintf("%02d/%s/%04d:%02d:%02d:%02d %s", d, time.Month(mo).String()[:3], y, h, mi, s, []string{"+0000", "-0500", "+0930"}[e.Choose("gen", 3)])
	}},
}

func c07Program(ls []int) string {
	var sb strings.Builder
	// txt and fl are assigned the value they already hold on every line: an update is an update
	sb.WriteString("gauge ts\ncounter hit by k\ngauge mark\ntext txt\ngauge fl\nhistogram hist buckets 1, 2, 4\n")
	for i, li := range ls {
		fmt.Fprintf(&sb, "/^%c (?P<v>.*)$/ {\n  strptime($v, \"%s\")\n  ts = timestamp()\n  hit[\"%c\"]++\n  txt = \"same\"\n  fl = 2.5\n  hist = 1\n}\n", 'A'+i, c07Layouts[li].layout, 'A'+i)
	}
	sb.WriteString("/^S (?P<n>-?\\d+)$/ {\n  settime($n)\n  ts = timestamp()\n  hit[\"S\"]++\n  txt = \"same\"\n  fl = 2.5\n  hist = 1\n}\n")
	sb.WriteString("/^N/ {\n  ts = timestamp()\n  hit[\"N\"]++\n  txt = \"same\"\n  fl = 2.5\n  hist = 1\n}\n")
	// strptime after an update: only data updated afterwards carry the parsed instant
	sb.WriteString("/^M (?P<v>.*)$/ {\n  mark = 1\n  strptime($v, \"" + c07Layouts[ls[0]].layout + "\")\n  hit[\"M\"]++\n  txt = \"same\"\n  fl = 2.5\n  hist = 1\n}\n")
	return sb.String()
}

func propC07(e *Env) {
	nl := 1 + e.Choose("gen", 3)
	var ls []int
	for i := 0; i < nl; i++ {
		ls = append(ls, e.Choose("gen", len(c07Layouts)))
	}
	src := c07Program(ls)
	var loc *time.Location
	locName := "none"
	switch e.Choose("knob", 4) {
	case 1:
		loc, locName = time.UTC, "UTC"
	case 2:
		loc, locName = time.FixedZone("plus5", 5*3600), "+05:00"
	case 3:
		loc, locName = time.FixedZone("minus9:30", -(9*3600+1800)), "-09:30"
	}
	useYear := e.Bool("knob")
	c, err := compiler.New()
	if err != nil {
		e.Broken("compiler.New: %v", err)
		return
	}
	obj, err := c.Compile("t.mtail", strings.NewReader(src))
	if err != nil {
		e.Broken("program does not compile: %v\n%s", err, src)
		return
	}
	v := vm.New("t.mtail", obj, useYear, loc, false, false)
	find := func(name string) *metrics.Metric {
		for _, m := range v.Metrics {
			if m.Name == name {
				return m
			}
		}
		return nil
	}
	mts, mhit, mmark := find("ts"), find("hit"), find("mark")
	mtxt, mfl, mhist := find("txt"), find("fl"), find("hist")
	cfg := fmt.Sprintf("layouts %v, override location %s, syslog-current-year %v", func() []string {
		var s []string
		for _, li := range ls {
			s = append(s, c07Layouts[li].layout)
		}
		return s
	}(), locName, useYear)
	model := func(layout, value string) (time.Time, bool) {
		var tm time.Time
		var err error
		if loc != nil {
			tm, err = time.ParseInLocation(layout, value, loc)
		} else {
			tm, err = time.Parse(layout, value)
		}
		if err != nil {
			return time.Time{}, false
		}
		if tm.Year() == 0 && useYear {
			now := time.Now()
			if loc != nil {
				now = now.In(loc)
			}
			tm = tm.AddDate(now.Year(), 0, 0)
		}
		return tm, true
	}
	var hist []string
	var values []string // earlier values, for repetition
	nlines := 3 + e.Choose("gen", 14)
	for i := 0; i < nlines && !e.Failed(); i++ {
		// the clock moves between lines
		switch e.Choose("gen", 6) {
		case 0:
			d := time.Duration(1+e.Choose("gen", 400)) * 24 * time.Hour // may cross New Year
			time.Sleep(d)
			e.Fault("clock_jump_days")
			hist = append(hist, fmt.Sprintf("(clock +%v)", d))
		case 1:
			// to just before / after the turn of the year
			now := time.Now().UTC()
			ny := time.Date(now.Year()+1, 1, 1, 0, 0, 0, 0, time.UTC)
			d := ny.Sub(now) + time.Duration(e.Choose("gen", 3)-1)*time.Second
			if d > 0 {
				time.Sleep(d)
			}
			e.Fault("clock_to_new_year")
			hist = append(hist, "(clock to New Year)")
		case 2:
			time.Sleep(time.Duration(1+e.Choose("gen", 5000)) * time.Millisecond)
		}
		var line, kind, layout, value string
		switch k := e.Choose("gen", 10); {
		case k <= 5:
			pi := e.Choose("gen", nl)
			layout = c07Layouts[ls[pi]].layout
			kind = string(rune('A' + pi))
			switch e.Choose("gen", 6) {
			case 0: // invalid
				value = []string{"garbage", "", "2020-13-45 99:99:99", "Foo 31 25:00:00"}[e.Choose("gen", 4)]
				e.Probe("invalid_value")
			case 1, 2: // repeat an earlier value (possibly first parsed under another layout, or invalid)
				if len(values) > 0 {
					value = values[e.Choose("gen", len(values))]
					e.Probe("repeated_value")
				} else {
					value = c07Layouts[ls[pi]].gen(e)
				}
			case 3: // a value generated for ANOTHER layout of the program
				value = c07Layouts[ls[e.Choose("gen", nl)]].gen(e)
			default:
				value = c07Layouts[ls[pi]].gen(e)
			}
			values = append(values, value)
			line = kind + " " + value
		case k == 6:
			kind = "S"
			n := []int64{1, 86400 * 365 * 31, 946684800 + int64(e.Choose("gen", 1000000)), 4102444800, 0}[e.Choose("gen", 5)]
			if n == 0 {
				n = 1 + int64(e.Choose("gen", 1000))
			}
			value = fmt.Sprint(n)
			line = "S " + value
		case k == 7:
			kind = "M"
			layout = c07Layouts[ls[0]].layout
			value = c07Layouts[ls[0]].gen(e)
			values = append(values, value)
			line = "M " + value
		default:
			kind = "N"
			line = "N nothing"
		}
		hist = append(hist, line)
		e.Event("line %q", line)
		now := time.Now()
		errsBefore := expvarMapInt("prog_runtime_errors_total", "t.mtail")
		tsBefore := int64(-1)
		if d := mts.FindLabelValueOrNil(nil); d != nil {
			tsBefore = datum.GetInt(d.Value)
		}
		hitBefore := int64(0)
		hitKey := kind
		if lv := mhit.FindLabelValueOrNil([]string{hitKey}); lv != nil {
			hitBefore = datum.GetInt(lv.Value)
		}
		v.ProcessLogLine(context.Background(), logline.New(context.Background(), "log", line))
		errs := expvarMapInt("prog_runtime_errors_total", "t.mtail") - errsBefore
		ctxt := fmt.Sprintf("%s; lines so far %s", cfg, quoteList(hist))
		// expectation
		var want time.Time
		expectErr := false
		switch kind {
		case "S":
			var n int64
			fmt.Sscan(value, &n)
			want = time.Unix(n, 0)
		case "N":
			want = now
		default:
			tm, ok := model(layout, value)
			if !ok {
				expectErr = true
			} else {
				want = tm
			}
		}
		if expectErr {
			e.Probe("parse_failure_expected")
			if errs != 1 {
				e.Fail("memo-failed-parse", "%s: strptime(%q, %q) cannot be parsed and must raise a runtime error every time; this line raised %d", ctxt, value, layout, errs)
				return
			}
			tsAfter := int64(-1)
			if d := mts.FindLabelValueOrNil(nil); d != nil {
				tsAfter = datum.GetInt(d.Value)
			}
			hitAfter := int64(0)
			if lv := mhit.FindLabelValueOrNil([]string{hitKey}); lv != nil {
				hitAfter = datum.GetInt(lv.Value)
			}
			if kind != "M" && (tsAfter != tsBefore || hitAfter != hitBefore) {
				e.Fail("error-did-not-abort-line", "%s: the failing strptime did not abort the rest of the line", ctxt)
				return
			}
			continue
		}
		if errs != 0 {
			e.Fail("spurious-runtime-error", "%s: the line raised %d runtime errors: %s", ctxt, errs, v.RuntimeErrorString())
			return
		}
		lv := mhit.FindLabelValueOrNil([]string{hitKey})
		if lv == nil || datum.GetInt(lv.Value) != hitBefore+1 {
			e.Broken("%s: witness counter hit[%s] did not move", ctxt, hitKey)
			return
		}
		if kind != "M" {
			got := datum.GetInt(mts.FindLabelValueOrNil(nil).Value)
			if got != want.Unix() {
				cls := "wrong-instant"
				switch {
				case kind == "N":
					cls = "default-not-now"
				case kind == "S":
					cls = "settime"
				case c07Layouts[0].noYear || strings.HasPrefix(layout, "Jan"):
					if time.Unix(got, 0).UTC().Year() != want.UTC().Year() {
						cls = "stale-year"
					}
				}
				if cls == "wrong-instant" {
					for _, li := range ls {
						if l2 := c07Layouts[li].layout; l2 != layout {
							if tm, ok := model(l2, value); ok && tm.Unix() == got {
								cls = "memo-cross-layout"
							}
						}
					}
				}
				e.Fail(cls, "%s: timestamp() returned %d (%v) after this line, expected %d (%v) [simulated now %v]", ctxt, got, time.Unix(got, 0).UTC(), want.Unix(), want.UTC(), now.UTC())
				return
			}
		}
		// data updated after the time register was set carry that instant — as far
		// as a datum can: it stores int64 nanoseconds since 1970 (years 1678-2262),
		// so the year-0 instants of a year-less layout without the current-year
		// option are outside what it can represent and are not compared
		representable := want.Year() >= 1678 && want.Year() <= 2261
		if !representable {
			e.Probe("instant_not_representable_in_datum")
		}
		if got := lv.Value.TimeUTC(); representable && !got.Equal(want) {
			cls := "datum-stamp"
			if got.UTC().Year() != want.UTC().Year() && strings.HasPrefix(layout, "Jan") {
				cls = "stale-year"
			}
			e.Fail(cls, "%s: hit[%s] was updated after the time register was set and carries %v, expected %v", ctxt, hitKey, got.UTC(), want.UTC())
			return
		}
		for _, m := range []*metrics.Metric{mtxt, mfl, mhist} {
			w := m.FindLabelValueOrNil(nil)
			if w == nil {
				e.Broken("%s: %s has no datum after the line", ctxt, m.Name)
				return
			}
			if got := w.Value.TimeUTC(); representable && !got.Equal(want) {
				e.Fail("datum-stamp", "%s: %s was updated (with the value it is given on every line) after the time register was set and carries %v, expected %v", ctxt, m.Name, got.UTC(), want.UTC())
				return
			}
		}
		if kind == "M" {
			// mark was assigned BEFORE strptime on that line: processing time
			if got := mmark.FindLabelValueOrNil(nil).Value.TimeUTC(); !got.Equal(now) {
				e.Fail("datum-stamp", "%s: mark was updated before strptime ran and carries %v, expected the processing time %v", ctxt, got.UTC(), now.UTC())
				return
			}
		}
	}
	e.R.Nontrivial = e.R.Probes["repeated_value"] > 0 || e.R.Faults["clock_to_new_year"]+e.R.Faults["clock_jump_days"] > 0
	e.R.Key = cfg + "|" + strings.Join(hist, "|")
	e.R.Sample = map[string]any{"config": cfg, "lines": hist}
}
