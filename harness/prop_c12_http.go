//go:build go1.23

package verifsim

import (
	"context"
	"fmt"
	"os"
	"path/filepath"
	"strings"
	"time"

	"github.com/google/mtail/internal/metrics"
	"github.com/google/mtail/internal/metrics/datum"
	"github.com/google/mtail/internal/mtail"
)

// C12, family "http-server": the export attempt goes through mtail's real HTTP
// server (internal/mtail initHTTPServer: net/http with its timeouts) over the
// in-memory transport. The client is healthy (reads everything), slow (reads
// now and then) or stalls: it sends the request and then neither reads nor
// closes, while the response is larger than the connection's send buffer. The
// handler then sits in a write with the store and a metric read-locked. What
// ends such an attempt is the server's write deadline; the simulator moves the
// fake clock past it. Afterwards the oracle of the other families applies:
// every metric can be written to, the store accepts a registration, no
// goroutine of the attempt is left, and shutdown completes.
func c12HTTP(e *Env) {
	snet := installSimNet(e)
	snet.outCap = []int{512, 4096, 16384}[e.Choose("knob", 3)]
	e.S.StmtPreempt = e.Choose("knob", 4) == 1
	store := metrics.NewStore()
	nsets := 40 + e.Choose("gen", 200)
	big := metrics.NewMetric("big", "p.mtail", metrics.Counter, metrics.Int, "k")
	for i := 0; i < nsets; i++ {
		d, err := big.GetDatum(fmt.Sprintf("label-%04d-%s", i, strings.Repeat("x", 40)))
		if err != nil {
			e.Broken("GetDatum: %v", err)
			return
		}
		datum.IncIntBy(d, int64(i), time.Now())
	}
	small := metrics.NewMetric("small", "p.mtail", metrics.Gauge, metrics.Int)
	if d, err := small.GetDatum(); err == nil {
		datum.SetInt(d, 7, time.Now())
	}
	store.Add(big)
	store.Add(small)
	progs := filepath.Join(e.Dir, "progs")
	os.Mkdir(progs, 0o755)
	// a log pattern keeps the tailer (and with it Server.Run) alive; nothing is ever written
	logs := filepath.Join(e.Dir, "logs")
	os.Mkdir(logs, 0o755)
	pw, sw := NewSimWaker(), NewSimWaker()
	ctx, cancel := context.WithCancel(context.Background())
	defer cancel()
	var srv *mtail.Server
	var nerr error
	returned := false
	e.S.Go("mtail", func() {
		srv, nerr = mtail.New(ctx, store, mtail.ProgramPath(progs), mtail.BindAddress("sim", "3903"), mtail.HTTPInfoEndpoints,
			mtail.LogPathPatterns(filepath.Join(logs, "*.log")), mtail.LogPatternPollWaker(pw), mtail.LogstreamPollWaker(sw))
		if nerr == nil {
			nerr = srv.Run()
		}
		returned = true
	})
	if !e.S.Run(2000000) {
		e.Fail("http:not-quiescent", "mtail with an HTTP server did not become quiescent; live: %s", liveString(e))
		return
	}
	if returned {
		e.Broken("mtail.New/Run returned at once: %v", nerr)
		return
	}
	path := []string{"/varz", "/graphite", "/json", "/metrics"}[e.Choose("gen", 4)]
	client := []string{"stalls", "healthy", "slow"}[e.Choose("gen", 3)]
	desc := fmt.Sprintf("GET %s from a client that %s (send buffer %d bytes, %d label sets)", path, client, snet.outCap, nsets)
	c, err := snet.dial("tcp", "sim:3903")
	if err != nil {
		e.Broken("dial: %v", err)
		return
	}
	c.clientWrite([]byte("GET " + path + " HTTP/1.1\r\nHost: sim\r\nConnection: close\r\n\r\n"))
	got := 0
	switch client {
	case "healthy":
		for i := 0; i < 100000; i++ {
			e.S.Run(100000)
			b := c.clientRead(1 << 20)
			got += len(b)
			if len(b) == 0 {
				break
			}
		}
	case "slow":
		for i := 0; i < 3+e.Choose("gen", 6); i++ {
			e.S.Run(100000)
			got += len(c.clientRead(1 + e.Choose("io", 2*snet.outCap)))
			e.S.Advance(time.Duration(1+e.Choose("env", 900)) * time.Millisecond)
		}
	}
	e.S.Run(400000)
	if client != "healthy" {
		e.Probe("http_client_stopped_reading")
		if c.WroteN >= snet.outCap {
			e.Probe("http_response_filled_send_buffer")
		}
	}
	// while the response is stuck in the send buffer nothing is promised about the locks; the server's own
	// write deadline (a configuration constant of mtail, 5 s at the time of writing; any finite value
	// passes) must end the attempt: let a minute of simulated time go by
	for i := 0; i < 12; i++ {
		e.S.Advance(5 * time.Second)
		if !e.S.Run(400000) {
			e.Fail("http:not-quiescent", "%s: the system did not become quiescent; live: %s", desc, liveString(e))
			return
		}
	}
	e.Fault("http_client_" + client)
	// (1) every metric can be written to, the store accepts a registration
	probeDone := false
	e.S.Go("probe", func() {
		for _, m := range []*metrics.Metric{big, small} {
			tuple := make([]string, len(m.Keys))
			for k := range tuple {
				tuple[k] = "probe"
			}
			if d, err := m.GetDatum(tuple...); err == nil {
				datum.IncIntBy(d, 1, time.Time{})
			}
		}
		pm := metrics.NewMetric("c12_probe_registration", "c12probe", metrics.Counter, metrics.Int)
		pm.Hidden = true
		if store.Add(pm) == nil {
			store.Remove(pm)
		}
		probeDone = true
	})
	e.S.Run(400000)
	if !probeDone {
		e.Fail("http:metric-left-rlocked", "%s: a minute later a writer (what a program does on its next line, or a program load) still blocks: the export holds its locks for as long as the client keeps the connection; live: %s", desc, liveString(e))
		return
	}
	// (2) shutdown completes and nothing is left
	c.clientClose()
	cancel()
	for i := 0; i < 4 && !returned; i++ {
		e.S.Run(2000000)
		e.S.Advance(5 * time.Second)
	}
	e.S.Run(2000000)
	if !returned {
		e.Fail("http:shutdown-stuck", "%s: Server.Run did not return after cancellation; live: %s", desc, liveString(e))
		return
	}
	if live := e.S.Live(); len(live) > 0 {
		e.Fail("http:helper-goroutine-blocked", "%s: tasks remain after shutdown: %s", desc, liveString(e))
		return
	}
	e.R.Nontrivial = client != "healthy" && c.WroteN >= snet.outCap
	e.R.Evals = 1
	e.R.Key = fmt.Sprintf("http|%s|%x", desc, e.S.Signature())
	e.R.Sample = map[string]any{"family": "http-server", "request": path, "client": client, "send_buffer": snet.outCap, "label_sets": nsets, "response_bytes_written": c.WroteN, "client_read": got}
}
