//go:build go1.23

package verifsim

import (
	"expvar"
	"fmt"
	"os"
	"path/filepath"
	"regexp"
	"sort"
	"strconv"
	"strings"

	"github.com/google/mtail/internal/tailer"
)

// C18 — every matching log path is tailed, once.
//
// SUT: the real Tailer (AddPattern, pattern pollers, TailPath, Ignore) and
// file streams on a real directory tree. Oracle: a set model of the paths that
// must be tailed after each observation, checked through the log_count gauge
// and through a unique probe line appended to every file of the tree (members
// deliver it exactly once, non-members never).

func init() { register("C18", propC18) }

var c18Files = []string{"a/x.log", "a/y.log", "a/z.txt", "a/skip.log", "b/x.log", "b/w.log", "x.log", "a/d.log"}

func c18Patterns(root string) [][2]string {
	// (pattern as given to the tailer, kind)
	return [][2]string{
		{filepath.Join(root, "a/*.log"), "abs"},
		{filepath.Join(root, "*/*.log"), "abs"},
		{filepath.Join(root, "a/x.log"), "abs"},
		{"a/?.log", "rel"},
		{filepath.Join(root, "*/x.*"), "abs"},
		{"*.log", "rel"},
		{filepath.Join(root, "b/*"), "abs"},
		{"./b/../a/y.log", "rel"},
		// not canonical: a literal path with a doubled separator, a glob through "."
		{root + "//a/x.log", "abs"},
		{root + "/a/./*.log", "abs"},
	}
}

func logCountVar() int64 {
	v := expvar.Get("log_count")
	if v == nil {
		return 0
	}
	n, _ := strconv.ParseInt(v.String(), 10, 64)
	return n
}

func propC18(e *Env) {
	root := e.Dir
	if err := os.Chdir(root); err != nil {
		e.Broken("chdir: %v", err)
		return
	}
	defer os.Chdir("/")
	e.S.StmtPreempt = e.Choose("knob", 3) == 1
	for _, d := range []string{"a", "b"} {
		os.Mkdir(filepath.Join(root, d), 0o755)
	}
	// initial files
	for _, f := range c18Files[:7] {
		if e.Choose("gen", 3) == 0 {
			mustWrite(filepath.Join(root, f), "old\n", os.O_CREATE|os.O_WRONLY)
		}
	}
	if e.Choose("gen", 4) == 0 {
		// matches the patterns but cannot be tailed (device node behind a symlink): must not stop the others
		if os.Symlink("/dev/null", filepath.Join(root, "a", "aaa.log")) == nil {
			e.Probe("untailable_glob_match")
		}
	}
	all := c18Patterns(root)
	np := 1 + e.Choose("gen", 3)
	var pats, patDesc []string
	for i := 0; i < np; i++ {
		p := all[e.Choose("gen", len(all))]
		pats = append(pats, p[0])
		patDesc = append(patDesc, strings.TrimPrefix(p[0], root+"/")+"("+p[1]+")")
	}
	ignore := []string{"", `^skip`, `\.txt$`, `^x\.`}[e.Choose("gen", 4)]
	var ignoreRe *regexp.Regexp
	if ignore != "" {
		ignoreRe = regexp.MustCompile(ignore)
	}
	base := logCountVar()
	opts := []tailer.Option{tailer.LogPatterns(pats)}
	if ignore != "" {
		opts = append(opts, tailer.IgnoreRegex(ignore))
	}
	r := newTailRig(e, opts...)
	if !r.quiesce() {
		return
	}
	if !r.started || r.startErr != nil {
		e.Broken("tailer.New did not return: started=%v err=%v live=%s", r.started, r.startErr, liveString(e))
		return
	}

	// The set model: glob semantics are the standard library's (the statement
	// says "matches a pattern"; filepath.Match is that definition).
	absPats := make([]string, len(pats))
	for i, p := range pats {
		absPats[i], _ = filepath.Abs(p)
	}
	member := func(path string) bool {
		fi, err := os.Lstat(path)
		if err != nil || !fi.Mode().IsRegular() {
			return false
		}
		if ignoreRe != nil && ignoreRe.MatchString(filepath.Base(path)) {
			return false
		}
		for _, p := range absPats {
			if ok, _ := filepath.Match(p, path); ok {
				return true
			}
		}
		return false
	}
	tree := func() []string {
		var fs []string
		filepath.Walk(root, func(p string, fi os.FileInfo, err error) error {
			if err == nil && fi.Mode().IsRegular() {
				fs = append(fs, p)
			}
			return nil
		})
		sort.Strings(fs)
		return fs
	}
	var did []string
	step := 0
	check := func() bool {
		mark0 := len(r.got)
		if !r.observe() {
			return false
		}
		if len(r.got) != mark0 {
			l := r.got[mark0]
			e.Fail("unexpected-line", "patterns %v, history [%s]: %q from %s was delivered although nothing was appended", patDesc, strings.Join(did, "; "), l.Line, l.Filename)
			return false
		}
		files := tree()
		var want []string
		for _, f := range files {
			if member(f) {
				want = append(want, f)
			}
		}
		hist := strings.Join(did, "; ")
		if got := logCountVar() - base; got != int64(len(want)) {
			e.Fail("log-count", "patterns %v ignore %q, history [%s]: log_count is %d but %d existing files match: %v", patDesc, ignore, hist, got, len(want), rels(root, want))
			return false
		}
		// probe every file
		step++
		mark := len(r.got)
		for _, f := range files {
			mustWrite(f, fmt.Sprintf("probe-%d-%s\n", step, f), os.O_APPEND|os.O_WRONLY)
		}
		if !r.observe() {
			return false
		}
		seen := map[string]int{}
		for _, l := range r.got[mark:] {
			if !strings.HasPrefix(l.Line, fmt.Sprintf("probe-%d-", step)) {
				e.Fail("probe-duplicated", "patterns %v, history [%s]: unexpected line %q from %s", patDesc, hist, l.Line, l.Filename)
				return false
			}
			p := strings.TrimPrefix(l.Line, fmt.Sprintf("probe-%d-", step))
			if l.Filename != p {
				e.Fail("wrong-source", "patterns %v, history [%s]: line %q delivered with file name %q", patDesc, hist, l.Line, l.Filename)
				return false
			}
			seen[p]++
		}
		for _, f := range files {
			m := member(f)
			switch {
			case m && seen[f] == 0:
				e.Fail("not-tailed", "patterns %v ignore %q, history [%s]: %s exists and matches but its new line was not delivered; live tasks: %s", patDesc, ignore, hist, rel(root, f), liveString(e))
			case m && seen[f] > 1:
				e.Fail("double-tailed", "patterns %v ignore %q, history [%s]: the new line of %s was delivered %d times", patDesc, ignore, hist, rel(root, f), seen[f])
			case !m && seen[f] > 0 && ignoreRe != nil && ignoreRe.MatchString(filepath.Base(f)):
				e.Fail("tailed-ignored", "patterns %v ignore %q, history [%s]: %s is ignored but its line was delivered", patDesc, ignore, hist, rel(root, f))
			case !m && seen[f] > 0:
				e.Fail("tailed-nonmatching", "patterns %v ignore %q, history [%s]: %s matches no pattern but its line was delivered", patDesc, ignore, hist, rel(root, f))
			}
			if e.Failed() {
				return false
			}
		}
		if len(want) >= 2 {
			e.Probe("two_or_more_tailed")
		}
		return true
	}
	if !check() {
		r.cancel()
		return
	}
	nact := 1 + e.Choose("gen", 8)
	for i := 0; i < nact && !e.Failed(); i++ {
		f := filepath.Join(root, c18Files[e.Choose("gen", len(c18Files))])
		var desc string
		switch e.Choose("gen", 8) {
		case 7: // deleted, its stream notices and ends, and a new file appears under the name — all between two pattern polls
			if fi, err := os.Lstat(f); err == nil && fi.Mode().IsRegular() {
				// half of the time the file ends in an unterminated fragment, which its stream has to hand
				// over when it notices the deletion
				frag := e.Bool("gen")
				if frag {
					step++
					mustWrite(f, fmt.Sprintf("probe-%d-frag", step), os.O_APPEND|os.O_WRONLY)
					r.sw.Tick()
					if !r.quiesce() {
						return
					}
				}
				mark := len(r.got)
				os.Remove(f)
				r.sw.Tick()
				// ... and the new file and the next pattern poll arrive either after the old stream is
				// completely gone, or k scheduler steps into its winding down
				k := -1
				if e.Bool("gen") {
					k = e.Choose("gen", 30)
					for j := 0; j < k; j++ {
						if !e.S.Step() {
							break
						}
					}
					mustWrite(f, "", os.O_CREATE|os.O_WRONLY|os.O_EXCL)
					r.pw.Tick()
					e.Probe("recreate_while_old_stream_winds_down")
				}
				if !r.quiesce() {
					return
				}
				if k < 0 {
					mustWrite(f, "", os.O_CREATE|os.O_WRONLY|os.O_EXCL)
				}
				desc = fmt.Sprintf("delete %s (fragment pending: %v), stream poll, re-create (%d steps into it, -1 = afterwards)", rel(root, f), frag, k)
				e.Probe("recreate_between_pattern_polls")
				// the fragment is the only thing that may arrive here, once
				if n := len(r.got) - mark; n > 1 || (n == 1 && !frag) || (n == 1 && r.got[mark].Line != fmt.Sprintf("probe-%d-frag", step)) {
					did = append(did, desc)
					e.Fail("unexpected-line", "patterns %v, history [%s]: %d lines arrived while %s was deleted and re-created: %q", patDesc, strings.Join(did, "; "), n, rel(root, f), func() []string {
						var ls []string
						for _, l := range r.got[mark:] {
							ls = append(ls, l.Line)
						}
						return ls
					}())
					return
				}
			} else {
				desc = "nop"
			}
		case 0, 1: // create (file, or a directory whose name matches a file pattern)
			if strings.HasSuffix(f, "d.log") {
				if os.Mkdir(f, 0o755) == nil {
					mustWrite(filepath.Join(f, "inner.log"), "", os.O_CREATE|os.O_WRONLY)
					e.Probe("directory_matching_pattern")
				}
				desc = "mkdir " + rel(root, f)
			} else if _, err := os.Lstat(f); err != nil && dirExists(filepath.Dir(f)) {
				mustWrite(f, "", os.O_CREATE|os.O_WRONLY|os.O_EXCL)
				desc = "create " + rel(root, f)
				e.Probe("create")
			} else {
				desc = "nop"
			}
		case 2: // delete
			if fi, err := os.Lstat(f); err == nil {
				if fi.IsDir() {
					os.RemoveAll(f)
				} else {
					os.Remove(f)
				}
				desc = "delete " + rel(root, f)
				e.Probe("delete")
			} else {
				desc = "nop"
			}
		case 3: // rename a file
			g := filepath.Join(root, c18Files[e.Choose("gen", 7)])
			if fi, err := os.Lstat(f); err == nil && !fi.IsDir() && f != g && dirExists(filepath.Dir(g)) {
				if _, err := os.Lstat(g); err == nil {
					// renaming onto an existing path is a rotation of that path (its
					// stream re-reads the new file from the start): C16's subject
					desc = "nop"
					break
				}
				os.Rename(f, g)
				desc = "rename " + rel(root, f) + " -> " + rel(root, g)
				e.Probe("rename")
			} else {
				desc = "nop"
			}
		case 4: // delete then re-create in one step
			if fi, err := os.Lstat(f); err == nil && !fi.IsDir() {
				os.Remove(f)
				mustWrite(f, "", os.O_CREATE|os.O_WRONLY|os.O_EXCL)
				desc = "replace " + rel(root, f)
				e.Probe("replace")
			} else {
				desc = "nop"
			}
		case 5: // rename a directory away and back, or swap
			a, b := filepath.Join(root, "a"), filepath.Join(root, "b")
			_ = b
			c := filepath.Join(root, "c")
			switch e.Choose("gen", 2) {
			case 0:
				if dirExists(a) && !dirExists(c) {
					os.Rename(a, c)
					desc = "rename dir a -> c"
				} else if dirExists(c) && !dirExists(a) {
					os.Rename(c, a)
					desc = "rename dir c -> a"
				}
			case 1:
				if dirExists(b) {
					os.RemoveAll(b)
					desc = "remove dir b"
				} else {
					os.Mkdir(b, 0o755)
					desc = "mkdir b"
				}
			}
			if desc == "" {
				desc = "nop"
			} else {
				e.Probe("directory_change")
			}
		case 6: // the file is replaced, and while its stream is somewhere in the middle of noticing that, deleted; later it is back
			if fi, err := os.Lstat(f); err == nil && fi.Mode().IsRegular() {
				os.Remove(f)
				mustWrite(f, "", os.O_CREATE|os.O_WRONLY|os.O_EXCL)
				r.sw.Tick()
				// statement by statement, so that the delete can land between any two steps of the stream
				sp, qt := e.S.StmtPreempt, e.S.Quanta
				e.S.StmtPreempt, e.S.Quanta = true, []int{0}
				k := e.Choose("gen", 400)
				for j := 0; j < k; j++ {
					if !e.S.Step() {
						k = j
						break
					}
				}
				e.S.StmtPreempt, e.S.Quanta = sp, qt
				os.Remove(f)
				if !r.quiesce() {
					return
				}
				r.sw.Tick()
				if !r.quiesce() {
					return
				}
				mustWrite(f, "", os.O_CREATE|os.O_WRONLY|os.O_EXCL)
				desc = fmt.Sprintf("replace %s, stream poll, delete it %d scheduler steps into that poll, stream poll, re-create", rel(root, f), k)
				e.Probe("delete_during_stream_poll")
			} else {
				desc = "nop"
			}
		default:
			desc = "poll"
		}
		did = append(did, desc)
		e.Event("action %d %s", i, desc)
		if !check() {
			break
		}
	}
	if e.Failed() {
		r.cancel()
		return
	}
	if !r.stop() {
		return
	}
	if got := logCountVar() - base; got != 0 {
		e.Fail("log-count", "log_count is %d after shutdown (patterns %v, history [%s])", got, patDesc, strings.Join(did, "; "))
	}
	e.R.Nontrivial = e.R.Probes["two_or_more_tailed"] > 0 && (e.R.Probes["create"]+e.R.Probes["delete"]+e.R.Probes["rename"]+e.R.Probes["replace"]+e.R.Probes["directory_change"] > 0)
	e.R.Key = fmt.Sprintf("%v|%s|%s|%x", patDesc, ignore, strings.Join(did, ";"), e.S.Signature())
	e.R.Sample = map[string]any{"patterns": patDesc, "ignore": ignore, "actions": did}
}

func dirExists(p string) bool {
	fi, err := os.Stat(p)
	return err == nil && fi.IsDir()
}

func rel(root, p string) string { return strings.TrimPrefix(p, root+"/") }

func rels(root string, ps []string) []string {
	var out []string
	for _, p := range ps {
		out = append(out, rel(root, p))
	}
	return out
}
