//go:build go1.23

package verifsim

import (
	"context"
	"fmt"
	"strings"
	"time"

	"github.com/google/mtail/internal/logline"
	"github.com/google/mtail/internal/metrics"
	"github.com/google/mtail/internal/metrics/datum"
	"github.com/google/mtail/internal/runtime/compiler"
	"github.com/google/mtail/internal/runtime/vm"
)

// C05 — a line's effect never depends on earlier lines except through metrics.
//
// SUT: the real compiler, vm.VM.ProcessLogLine and metrics, under the fake
// clock. Twin run in one bubble: VM_h processes a history H (with clock
// advances and jumps over New Year in between, lines aborted by runtime
// errors, stop statements, repeated timestamp strings under several layouts);
// VM_f is compiled afresh and its metrics are loaded through the public metric
// API with VM_h's label tuples, values, timestamps and expiries in the same
// order. Both then process line L at the same simulated instant. Everything
// observable must be equal: all metrics, whether a runtime error was raised,
// and its text.

func init() { register("C05", propC05) }

var c05Rules = []struct{ name, src string }{
	{"strptime-ymd", "/^a (?P<v>\\S+ \\S+)$/ {\n  strptime($v, \"2006-01-02 15:04:05\")\n  ts = timestamp()\n  c0[\"a\"]++\n}\n"},
	{"strptime-ydm", "/^b (?P<v>\\S+ \\S+)$/ {\n  strptime($v, \"2006-02-01 15:04:05\")\n  ts = timestamp()\n  c0[\"b\"]++\n}\n"},
	{"strptime-syslog", "/^y (?P<v>\\w+ +\\d+ \\S+)$/ {\n  strptime($v, \"Jan _2 15:04:05\")\n  ts = timestamp()\n  c0[\"y\"]++\n}\n"},
	{"settime", "/^s (?P<n>\\d+)$/ {\n  settime($n)\n  ts = timestamp()\n  c1++\n}\n"},
	{"now", "/^n/ {\n  ts = timestamp()\n  c1++\n}\n"},
	{"strtol", "/^x (?P<w>\\w+)$/ {\n  c1++\n  g0 = strtol($w, 10)\n  c0[\"x\"]++\n}\n"},
	{"stop", "/^t/ {\n  c1++\n  stop\n}\n"},
	{"after-stop", "/^t|^n/ {\n  c0[\"late\"]++\n}\n"},
	{"del", "/^d (?P<k>\\w)$/ {\n  del c0[$k]\n}\n"},
	{"del-after", "/^e (?P<k>\\w)$/ {\n  del c0[$k] after 1h\n  c1++\n}\n"},
	{"cond", "/^o (?P<n>\\d+)$/ {\n  $n > 5 {\n    c0[\"big\"]++\n  } else {\n    c0[\"small\"]++\n  }\n}\n"},
	{"otherwise", "/^o|^n/ {\n  /^o 7/ {\n    c0[\"seven\"]++\n  }\n  otherwise {\n    c1++\n  }\n}\n"},
	{"const-time", "/^k/ {\n  strptime(\"2012-12-12 12:12:12\", \"2006-01-02 15:04:05\")\n  ts = timestamp()\n  c0[\"k\"]++\n}\n"},
	{"div", "/^v (?P<n>\\d+)$/ {\n  c1++\n  g0 = 100 / $n\n  c0[\"v\"]++\n}\n"},
	{"strptime-then-error", "/^u (?P<v>\\S+ \\S+) (?P<w>\\w+)$/ {\n  strptime($v, \"2006-01-02 15:04:05\")\n  c1++\n  g0 = strtol($w, 10)\n  c0[\"u\"]++\n}\n"},
	{"strptime-then-stop", "/^q (?P<v>\\S+ \\S+)$/ {\n  strptime($v, \"2006-01-02 15:04:05\")\n  c1++\n  stop\n}\n"},
	// a line whose only metric access is one label set (that GC may have collected in the meantime)
	{"bump", "/^m (?P<k>\\w)$/ {\n  c0[$k]++\n}\n"},
	{"capture-reuse", "/^(?P<first>\\w) (?P<rest>.*)$/ {\n  s0 = $rest\n  c0[$first]++\n}\n"},
}

func c05Program(e *Env) (string, []string) {
	var sb strings.Builder
	sb.WriteString("counter c0 by k\ncounter c1\ngauge g0\ngauge ts\ntext s0\n")
	n := 3 + e.Choose("gen", 6)
	var names []string
	used := map[int]bool{}
	if e.Choose("gen", 6) == 0 {
		// the pair the "collected and touched again" history needs
		for k, r := range c05Rules {
			if r.name == "bump" || r.name == "del-after" {
				used[k] = true
				names = append(names, r.name)
				sb.WriteString(r.src)
			}
		}
	}
	for i := 0; i < n; i++ {
		k := e.Choose("gen", len(c05Rules))
		if used[k] {
			continue
		}
		used[k] = true
		names = append(names, c05Rules[k].name)
		sb.WriteString(c05Rules[k].src)
	}
	// every declared metric must be used or the compiler rejects the program
	sb.WriteString("/^ZZ (?P<q>\\d+)$/ {\n  c0[\"z\"]++\n  c1++\n  g0 = $q\n  ts = timestamp()\n  s0 = \"z\"\n}\n")
	// one program in three ends in an else branch whose last statement — the last instruction of the
	// whole program — stops the line or raises a runtime error
	switch e.Choose("gen", 6) {
	case 0:
		names = append(names, "tail-else-stop")
		sb.WriteString("/^[a-m]/ {\n  c0[\"head\"]++\n} else {\n  c0[\"tail\"]++\n  stop\n}\n")
	case 1:
		names = append(names, "tail-else-error")
		sb.WriteString("/^[a-m]/ {\n  c0[\"head\"]++\n} else {\n  del c0[\"nobody\"] after 1h\n}\n")
	}
	return sb.String(), names
}

func c05Line(e *Env, pool *[]string) string {
	if len(*pool) > 0 && e.Choose("gen", 3) == 0 {
		l := (*pool)[e.Choose("gen", len(*pool))] // an exact repeat
		if e.Bool("gen") && (strings.HasPrefix(l, "a ") || strings.HasPrefix(l, "b ")) {
			// the same timestamp string, this time for the rule with the other layout
			l = string("ab"[1-strings.Index("ab", l[:1])]) + l[1:]
		}
		return l
	}
	date := func() string {
		return fmt.Sprintf("%04d-%02d-%02d %02d:%02d:%02d", 2000+e.Choose("gen", 3), 1+e.Choose("gen", 12), 1+e.Choose("gen", 12), e.Choose("gen", 24), e.Choose("gen", 60), 7)
	}
	var l string
	switch e.Choose("gen", 19) {
	case 17, 18:
		l = "m " + []string{"a", "b", "x", "v", "q"}[e.Choose("gen", 5)]
	case 15:
		l = "u " + date() + " " + []string{"12", "zz", "q9"}[e.Choose("gen", 3)]
	case 16:
		l = "q " + date()
	case 0:
		l = "a " + date()
	case 1:
		l = "b " + date()
	case 2:
		l = []string{"a garbage here", "b 2000-99-99 00:00:00", "y Foo 99 99:99:99"}[e.Choose("gen", 3)]
	case 3:
		l = fmt.Sprintf("y %s %2d %02d:%02d:%02d", time.Month(1 + e.Choose("gen", 12)).String()[:3], 1+e.Choose("gen", 28), e.Choose("gen", 24), e.Choose("gen", 60), 9)
	case 4:
		l = fmt.Sprintf("s %d", 946684800+e.Choose("gen", 100000000))
	case 5:
		l = "n plain"
	case 6:
		l = "x " + []string{"12", "zz", "7", "q9"}[e.Choose("gen", 4)]
	case 7:
		l = "t stop here"
	case 8:
		l = "d " + []string{"a", "b", "x", "v", "q"}[e.Choose("gen", 5)]
	case 9:
		l = "e " + []string{"a", "b", "x", "v", "q"}[e.Choose("gen", 5)]
	case 10:
		l = fmt.Sprintf("o %d", e.Choose("gen", 10))
	case 11:
		l = "k const"
	case 12:
		l = fmt.Sprintf("v %d", e.Choose("gen", 4))
	case 13:
		l = "ZZ " + fmt.Sprint(e.Choose("gen", 50))
	default:
		// the date strings of the other layout family, to cross the memo
		l = []string{"a ", "b "}[e.Choose("gen", 2)] + date()
	}
	*pool = append(*pool, l)
	return l
}

type c05Snap struct {
	lines []string
}

func c05Snapshot(v *vm.VM) string {
	var sb strings.Builder
	for _, m := range v.Metrics {
		fmt.Fprintf(&sb, "%s:", m.Name)
		for _, lv := range m.LabelValues {
			fmt.Fprintf(&sb, " [%s]=%s@%d/exp=%v", strings.Join(lv.Labels, ","), lv.Value.ValueString(), lv.Value.TimeUTC().UnixNano(), lv.Expiry)
		}
		sb.WriteString("\n")
	}
	return sb.String()
}

func propC05(e *Env) {
	src, rules := c05Program(e)
	var loc *time.Location
	if e.Choose("knob", 3) == 1 {
		loc = time.FixedZone("plus3", 3*3600)
	}
	useYear := e.Bool("knob")
	logErrs := e.Choose("knob", 3) == 0 // the option that also logs runtime errors: must not change anything
	if logErrs {
		e.Probe("opt_log_runtime_errors")
	}
	c, err := compiler.New()
	if err != nil {
		e.Broken("compiler.New: %v", err)
		return
	}
	compile := func(name string) *vm.VM {
		obj, err := c.Compile(name, strings.NewReader(src))
		if err != nil {
			return nil
		}
		return vm.New(name, obj, useYear, loc, logErrs, false)
	}
	vh := compile("p.mtail")
	if vh == nil {
		e.R.Sample = map[string]any{"rejected_program": rules}
		e.R.Key = "rejected"
		return // rejected programs are discarded
	}
	ctx := context.Background()
	var pool []string
	var hist []string
	nh := e.Choose("gen", 13)
	stateful := false
	// the store's garbage collection works on the same metric objects (as under the runtime)
	gcStore := metrics.NewStore()
	for _, m := range vh.Metrics {
		if err := gcStore.Add(m); err != nil {
			e.Broken("store.Add: %v", err)
			return
		}
	}
	gc := func() {
		if err := gcStore.Gc(); err != nil {
			e.Broken("Gc: %v", err)
		}
		hist = append(hist, "(gc)")
		e.Probe("history_has_gc")
	}
	// One run in twelve: a long history — a timestamped line, then 64-200 lines with other timestamps (more
	// than any small cache of parses holds), then that first line again as L.
	longFirst := ""
	longPrefix := ""
	for _, rn := range rules {
		switch rn {
		case "strptime-ymd":
			longPrefix = "a"
		case "strptime-ydm":
			if longPrefix == "" {
				longPrefix = "b"
			}
		}
	}
	if longPrefix != "" && e.Choose("gen", 6) == 0 {
		longFirst = longPrefix + " 2001-02-03 04:05:07"
		nh = 0
		vh.ProcessLogLine(ctx, logline.New(ctx, "log", longFirst))
		hist = append(hist, longFirst)
		n := 64 + e.Choose("gen", 137)
		for i := 0; i < n; i++ {
			l := fmt.Sprintf("%s 2002-%02d-%02d %02d:%02d:07", longPrefix, 1+i%12, 1+(i/12)%12, (i/144)%24, i%60)
			vh.ProcessLogLine(ctx, logline.New(ctx, "log", l))
		}
		hist = append(hist, fmt.Sprintf("(%d lines '%s 2002-MM-DD hh:mm:07' with distinct timestamps)", n, longPrefix))
		stateful = true
		e.Probe("history_has_strptime")
		e.Probe("long_history_of_distinct_timestamps")
	}
	for i := 0; i < nh; i++ {
		if e.Choose("gen", 6) == 0 {
			gc()
		}
		switch e.Choose("gen", 8) {
		case 0:
			d := time.Duration(1+e.Choose("gen", 500)) * 24 * time.Hour
			time.Sleep(d)
			hist = append(hist, fmt.Sprintf("(clock +%v)", d))
			e.Fault("clock_jump_days")
		case 1:
			time.Sleep(time.Duration(1+e.Choose("gen", 7200)) * time.Second)
		}
		l := c05Line(e, &pool)
		before := expvarMapInt("prog_runtime_errors_total", "p.mtail")
		vh.ProcessLogLine(ctx, logline.New(ctx, "log", l))
		if expvarMapInt("prog_runtime_errors_total", "p.mtail") != before {
			e.Probe("history_line_raised_runtime_error")
			stateful = true
		}
		if strings.HasPrefix(l, "a ") || strings.HasPrefix(l, "b ") || strings.HasPrefix(l, "y ") || strings.HasPrefix(l, "u ") || strings.HasPrefix(l, "q ") {
			stateful = true
			e.Probe("history_has_strptime")
		}
		if strings.HasPrefix(l, "t ") {
			stateful = true
			e.Probe("history_has_stop")
		}
		hist = append(hist, l)
	}
	if e.Choose("gen", 3) == 0 {
		time.Sleep(time.Duration(1+e.Choose("gen", 400)) * 24 * time.Hour)
		hist = append(hist, "(clock jump)")
	}
	if e.Choose("gen", 4) == 0 {
		gc()
	}
	L := c05Line(e, &pool)
	if longFirst != "" {
		L = longFirst
	}
	hasRule := func(n string) bool {
		for _, rn := range rules {
			if rn == n {
				return true
			}
		}
		return false
	}
	if longFirst == "" && hasRule("bump") && hasRule("del-after") && e.Choose("gen", 2) == 0 {
		// a label set is created, marked for expiry, touched, collected by GC after its expiry — and L touches it again
		k := []string{"a", "b", "x"}[e.Choose("gen", 3)]
		for _, l := range []string{"m " + k, "e " + k, "m " + k} {
			vh.ProcessLogLine(ctx, logline.New(ctx, "log", l))
			hist = append(hist, l)
		}
		time.Sleep(time.Duration(61+e.Choose("gen", 600)) * time.Minute)
		hist = append(hist, "(clock +1h or more)")
		gc()
		L = "m " + k
		if e.Bool("gen") {
			// ... or it is re-created by a line of the history, and L marks it for expiry again
			vh.ProcessLogLine(ctx, logline.New(ctx, "log", L))
			hist = append(hist, L)
			L = "e " + k
		}
		e.Probe("collected_label_set_touched_again")
	}
	// fresh copy with the same metric contents
	vf := compile("p.mtail")
	if vf == nil || len(vf.Metrics) != len(vh.Metrics) {
		e.Broken("second compilation of the same source differs")
		return
	}
	for i, mh := range vh.Metrics {
		mf := vf.Metrics[i]
		if mh.Name != mf.Name || mh.Type != mf.Type {
			e.Broken("metric lists of two compilations differ")
			return
		}
		for _, lv := range mh.LabelValues {
			d, err := mf.GetDatum(append([]string{}, lv.Labels...)...)
			if err != nil {
				e.Broken("GetDatum: %v", err)
				return
			}
			ts := lv.Value.TimeUTC()
			switch mh.Type {
			case metrics.Int:
				datum.SetInt(d, datum.GetInt(lv.Value), ts)
			case metrics.Float:
				datum.SetFloat(d, datum.GetFloat(lv.Value), ts)
			case metrics.String:
				datum.SetString(d, datum.GetString(lv.Value), ts)
			}
			if lv.Expiry != 0 {
				if err := mf.ExpireDatum(lv.Expiry, lv.Labels...); err != nil {
					e.Broken("ExpireDatum: %v", err)
					return
				}
			}
		}
	}
	if a, b := c05Snapshot(vh), c05Snapshot(vf); a != b {
		e.Broken("could not reproduce the metric state in the fresh copy:\n%s\nvs\n%s", a, b)
		return
	}
	// both process L at the same simulated instant
	e0 := expvarMapInt("prog_runtime_errors_total", "p.mtail")
	vh.ProcessLogLine(ctx, logline.New(ctx, "log", L))
	e1 := expvarMapInt("prog_runtime_errors_total", "p.mtail")
	vf.ProcessLogLine(ctx, logline.New(ctx, "log", L))
	e2 := expvarMapInt("prog_runtime_errors_total", "p.mtail")
	errH, errF := e1-e0, e2-e1
	ctxt := fmt.Sprintf("program rules %v (current-year=%v, location=%v), history %s, then line %q", rules, useYear, loc, quoteList(hist), L)
	if errH != errF {
		cls := "memo-suppressed-error"
		if errH > errF {
			cls = "error-leaked-from-history"
		}
		e.Fail(cls, "%s: after the history the line raised %d runtime errors, in a fresh copy with the same metrics %d (fresh copy's error: %s)", ctxt, errH, errF, trunc(vf.RuntimeErrorString(), 300))
		return
	}
	if errH > 0 {
		// the error text names the instruction and the input, both equal by construction
		a, b := vh.RuntimeErrorString(), vf.RuntimeErrorString()
		if strings.Split(a, "\n")[0] != strings.Split(b, "\n")[0] {
			e.Fail("error-text-differs", "%s: different runtime errors: %q vs %q", ctxt, trunc(a, 200), trunc(b, 200))
			return
		}
		e.Probe("line_raised_runtime_error")
	}
	if a, b := c05Snapshot(vh), c05Snapshot(vf); a != b {
		cls := "other-metric-diff"
		la, lb := strings.Split(a, "\n"), strings.Split(b, "\n")
		for i := range la {
			if i < len(lb) && la[i] != lb[i] {
				switch {
				case strings.HasPrefix(la[i], "ts:"):
					cls = "memo-wrong-time"
				case strings.HasPrefix(la[i], "s0:"):
					cls = "capture-leak"
				}
				break
			}
		}
		if cls == "other-metric-diff" && strings.Contains(strings.Join(hist, " "), "t stop") {
			cls = "terminate-leak"
		}
		e.Fail(cls, "%s: the metrics differ afterwards:\n--- after the history\n%s--- fresh copy\n%s", ctxt, a, b)
		return
	}
	e.R.Nontrivial = stateful
	e.R.Key = strings.Join(rules, ",") + "|" + strings.Join(hist, "|") + "|" + L
	e.R.Sample = map[string]any{"rules": rules, "history": hist, "line": L}
}
