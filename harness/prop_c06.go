//go:build go1.23

package verifsim

import (
	"bytes"
	"context"
	"fmt"
	"os"
	"path/filepath"
	"sort"
	"strings"
	"time"

	"github.com/google/mtail/internal/exporter"
	"github.com/google/mtail/internal/metrics"
	"github.com/google/mtail/internal/runtime"
)

// C06 — programs are isolated from each other.
//
// SUT: the real runtime (loader, fan-out, one VM goroutine per program), the
// store and the real Prometheus exposition with the prog label on. An
// *observed* program is loaded before the first line and never touched; other
// programs are added, edited (valid, broken, kind-conflicting), removed and
// re-added by a loader task while a feeder streams lines. Oracle: the
// observed program's series (selected by prog label) equal those of a solo
// reference run — the same lines through a runtime that only ever had the
// observed program — and the scrape as a whole keeps working.

func init() { register("C06", propC06) }

// program family: every program counts lines per first letter, keeps a gauge,
// and some raise runtime errors.
func c06Observed(k int) string {
	switch k {
	case 0:
		return "counter total\ncounter by_first by first\ngauge last_n\n/^(?P<first>[a-c])(?P<n>\\d+)/ {\n  total++\n  by_first[$first]++\n  last_n = $n\n}\n"
	case 1:
		return "counter total\nhidden gauge acc\ncounter big\n/^(?P<first>[a-c])(?P<n>\\d+)/ {\n  total++\n  acc = $n\n  acc > 4 {\n    big++\n  }\n}\n"
	}
	if k == 3 {
		// relies on the default of timestamp(): the processing time, which is recent (the fake clock starts in
		// 2000); another program setting ITS time register to 1970 must not change that
		return "counter total\ncounter recent\ncounter ancient\n/^(?P<first>[a-c])(?P<n>\\d+)/ {\n  total++\n  timestamp() > 900000000 {\n    recent++\n  } else {\n    ancient++\n  }\n}\n"
	}
	return "counter total by first\ngauge ratio\n/^(?P<first>[a-c])(?P<n>\\d+)/ {\n  total[$first]++\n  ratio = 100 / $n\n}\n" // n==0: runtime error
}

// the "other" programs: name collisions with the observed program of the same
// kind (same or different value type, same or different keys), a kind
// conflict, a broken one, a runtime-error maker.
var c06Others = []struct {
	name, src string
	outcome   string // loads | compile-error | refused
}{
	{"same-name-same-kind", "counter total\n/./ {\n  total++\n}\n", "loads"},
	{"same-name-float", "counter total\n/(?P<x>\\d+\\.\\d+)|./ {\n  total += 0.5\n}\n", "loads"},
	{"same-name-other-keys", "counter total by k\n/^(?P<k>.)/ {\n  total[$k]++\n}\n", "loads"},
	{"gauge-same-name", "gauge last_n\n/(?P<n>\\d+)/ {\n  last_n = $n * 1000\n}\n", "loads"},
	{"kind-conflict", "gauge total\n/./ {\n  total = 1\n}\n", "refused"},
	{"broken", "counter total\n/./ {\n  total++\n", "compile-error"},
	{"runtime-errors", "counter total\ncounter errs\n/^(?P<w>\\w+)/ {\n  total++\n  errs += strtol($w, 10)\n}\n", "loads"},
	{"hidden-other-kind", "hidden gauge total\ncounter seen_h\n/./ {\n  total = 1\n  seen_h++\n}\n", "loads"},
	// same metric names and label tuples as the observed program, but these expire them: the store's
	// garbage collection may only ever collect their own
	{"expiring-by-first", "counter by_first by first\n/^(?P<first>[a-c])/ {\n  by_first[$first]++\n  del by_first[$first] after 1m\n}\n", "loads"},
	{"expiring-total", "counter total by first\n/^(?P<first>[a-c])/ {\n  total[$first]++\n  del total[$first] after 1m\n}\n", "loads"},
	// a name the observed program does not use, as a counter and as a gauge: whichever comes second
	// (also as an edit of a program that already holds the name) must be refused while the other is there
	{"extra-counter", "counter extra\n/./ {\n  extra++\n}\n", "depends"},
	{"extra-gauge", "gauge extra\n/./ {\n  extra = 1\n}\n", "depends"},
	// sets its own time register on every line (1970): no other program's timestamp() may see that
	{"sets-time", "counter total\n/./ {\n  settime(1)\n  total++\n}\n", "loads"},
	// a metric that cannot be exported (its key is called prog, as the label mtail adds itself): it is left
	// out of a scrape, and nothing else is
	{"key-named-prog", "counter kp by prog\n/^(?P<prog>[a-c])/ {\n  kp[$prog]++\n}\n", "loads"},
	{"hidden-same-name", "hidden counter total\ncounter visible\n/./ {\n  total++\n  visible = total\n}\n", "loads"},
}

// progSeries extracts the exposition lines carrying prog="name", sorted.
func progSeries(expo, prog string) []string {
	var out []string
	for _, l := range strings.Split(expo, "\n") {
		if strings.Contains(l, `prog="`+prog+`"`) {
			out = append(out, l)
		}
	}
	sort.Strings(out)
	return out
}

// c06Scrape scrapes through the daemon's path (ps) or, with ps == nil, through
// Exporter.Write, the path of one-shot mode's prometheus output.
func c06Scrape(e *Env, r *rtRig, ex *exporter.Exporter, ps *promScraper) (string, error, bool) {
	var out string
	var err error
	done := false
	e.S.Go("scrape", func() {
		if ps != nil {
			out, err = ps.Scrape()
		} else {
			var b bytes.Buffer
			err = ex.Write(&b)
			out = b.String()
		}
		done = true
	})
	if !r.quiesce() {
		return "", nil, false
	}
	if !done {
		e.Fail("scrape-stuck", "Prometheus scrape did not finish; live: %s", liveString(e))
		return "", nil, false
	}
	return out, err, true
}

func propC06(e *Env) {
	e.S.StmtPreempt = e.Choose("knob", 3) == 1
	obsK := e.Choose("gen", 4)
	obs := "obs.mtail"
	nlines := 4 + e.Choose("gen", 30)
	var lines []string
	for i := 0; i < nlines; i++ {
		lines = append(lines, fmt.Sprintf("%c%d tail", 'a'+rune(e.Choose("gen", 3)), e.Choose("gen", 9)))
	}
	// split the stream into segments; between segments loader operations run (some concurrently with the next segment)
	nops := 1 + e.Choose("gen", 6)

	// ---- reference: solo run ------------------------------------------------
	solo := filepath.Join(e.Dir, "solo")
	os.Mkdir(solo, 0o755)
	os.WriteFile(filepath.Join(solo, obs), []byte(c06Observed(obsK)), 0o644)
	ctx, cancel := context.WithCancel(context.Background())
	defer cancel()
	rctx, rcancel := context.WithCancel(context.Background())
	defer rcancel()
	refStore := metrics.NewStore()
	refEx, refPs := newDaemonExport(e, rctx, refStore)
	if refEx == nil {
		return
	}
	var rtOpts []runtime.Option
	if e.Choose("knob", 3) == 0 {
		rtOpts = append(rtOpts, runtime.OmitMetricSource())
		e.Probe("omit_metric_source")
	}
	ref := newRtRigStore(e, solo, refStore, rtOpts...)
	if !ref.quiesce() || !ref.started || ref.err != nil {
		e.Broken("solo runtime.New: %v", ref.err)
		return
	}
	done := false
	ref.feed("log", lines, &done)
	if !ref.quiesce() || !done {
		e.Broken("solo run did not finish")
		return
	}
	refOut, rerr, ok := c06Scrape(e, ref, refEx, refPs)
	if !ok || rerr != nil {
		e.Broken("solo scrape failed: %v", rerr)
		return
	}
	want := progSeries(refOut, obs)
	wantErrs := snapProg(obs)
	rcancel()
	e.S.Go("stop", func() { refEx.Stop() })
	ref.shutdown()
	if e.Failed() {
		return
	}

	// ---- the run under test -----------------------------------------------
	dir := filepath.Join(e.Dir, "progs")
	os.Mkdir(dir, 0o755)
	os.WriteFile(filepath.Join(dir, obs), []byte(c06Observed(obsK)), 0o644)
	baseErrs := snapProg(obs)
	store := metrics.NewStore()
	ex, ps := newDaemonExport(e, ctx, store)
	if ex == nil {
		return
	}
	// one run in three: one or two other programs are already in the directory when mtail starts; their
	// names sort before the observed program's, so they are loaded (and registered) first
	present := map[string]int{} // other program file -> index in c06Others
	var did []string
	if e.Choose("gen", 3) == 0 {
		for i := 0; i < 1+e.Choose("gen", 2); i++ {
			slot := fmt.Sprintf("o%d.mtail", i)
			k := e.Choose("gen", len(c06Others))
			if c06Others[k].name == "kind-conflict" {
				// registered first, this one would legitimately get the observed program refused (the one
				// interaction the statement permits)
				k = 0
			}
			os.WriteFile(filepath.Join(dir, slot), []byte(c06Others[k].src), 0o644)
			present[slot] = k
			did = append(did, fmt.Sprintf("%s=%s present at start", slot, c06Others[k].name))
			e.Probe("other_" + c06Others[k].name)
		}
		e.Probe("others_loaded_before_observed")
	}
	r := newRtRigStore(e, dir, store, rtOpts...)
	if !r.quiesce() || !r.started || r.err != nil {
		e.Broken("runtime.New: %v", r.err)
		return
	}
	hist := func() string { return strings.Join(did, "; ") }
	pos := 0
	for op := 0; op <= nops && !e.Failed(); op++ {
		// a segment of lines
		seg := (nlines - pos) / (nops - op + 1)
		if op == nops {
			seg = nlines - pos
		}
		segLines := lines[pos : pos+seg]
		pos += seg
		fedDone := true
		if len(segLines) > 0 {
			fedDone = false
			r.feed("log", segLines, &fedDone)
		}
		concurrent := e.Bool("gen")
		if !concurrent {
			if !r.quiesce() {
				return
			}
		}
		if op < nops {
			// a loader operation on another program
			slot := fmt.Sprintf("o%d.mtail", e.Choose("gen", 3))
			var desc string
			before := snapProg(slot)
			if _, ok := present[slot]; ok && e.Choose("gen", 3) == 0 {
				os.Remove(filepath.Join(dir, slot))
				delete(present, slot)
				desc = "remove " + slot
			} else {
				k := e.Choose("gen", len(c06Others))
				os.WriteFile(filepath.Join(dir, slot), []byte(c06Others[k].src), 0o644)
				present[slot] = k
				desc = fmt.Sprintf("load %s=%s", slot, c06Others[k].name)
				e.Probe("other_" + c06Others[k].name)
			}
			if concurrent {
				desc += " (while lines flow)"
				e.Probe("load_overlapped_lines")
			}
			did = append(did, desc)
			relDone := false
			r.reload(&relDone, nil)
			if !r.quiesce() {
				return
			}
			if !relDone {
				e.Fail("deadlock", "history [%s]: LoadAllPrograms did not return; live: %s", hist(), liveString(e))
				return
			}
			// a load may only be refused for a kind conflict with ANOTHER program's metric
			if k, ok := present[slot]; ok && strings.HasPrefix(desc, "load") {
				d := snapProg(slot).sub(before)
				switch c06Others[k].outcome {
				case "loads":
					if d.loads != 1 && !(d.loads == 0 && d.loadErrs == 0) { // identical content re-written: no reload
						e.Fail("illegal-refusal", "history [%s]: %s (%s) is a valid program with no kind conflict but was not loaded (loads=%d load_errors=%d)", hist(), slot, c06Others[k].name, d.loads, d.loadErrs)
						return
					}
				}
			}
		}
		if !r.quiesce() {
			return
		}
		if !fedDone {
			e.Fail("deadlock", "history [%s]: the line stream stalled; live: %s", hist(), liveString(e))
			return
		}
		// now and then time passes and the store's garbage collection runs: the observed program expires
		// nothing and has no limits, so this may never change its series
		if e.Choose("gen", 3) == 0 {
			e.S.Advance(2 * time.Minute)
			var gerr error
			gcDone := false
			e.S.Go("gc", func() { gerr = store.Gc(); gcDone = true })
			if !r.quiesce() {
				return
			}
			did = append(did, "2 minutes pass, gc")
			e.Probe("gc_pass")
			if !gcDone || gerr != nil {
				e.Fail("gc-broken-by-other-program", "history [%s]: Store.Gc did not finish or failed (finished=%v): %v", hist(), gcDone, gerr)
				return
			}
		}
		// the scrape as a whole must work and the observed program's series must be there
		out, serr, ok := c06Scrape(e, r, ex, ps)
		if !ok {
			return
		}
		if serr != nil {
			e.Fail("scrape-broken-by-other-program", "history [%s]: with the other programs %v loaded next to %s the whole Prometheus scrape fails: %s", hist(), c06Present(present), obs, trunc(serr.Error(), 500))
			return
		}
		// one-shot mode prints the metrics through Exporter.Write (a fresh registry per call)
		if op == nops && !avoid(e, "oneshot-write") {
			wout, werr, ok := c06Scrape(e, r, ex, nil)
			if !ok {
				return
			}
			if werr != nil {
				e.Fail("oneshot-write-broken-by-other-program", "history [%s]: with the other programs %v loaded next to %s, Exporter.Write (one-shot mode's prometheus output) fails: %s", hist(), c06Present(present), obs, trunc(werr.Error(), 500))
				return
			}
			if strings.Join(progSeries(wout, obs), "\n") != strings.Join(progSeries(out, obs), "\n") {
				e.Fail("value-diff", "history [%s]: Exporter.Write and the registry scrape disagree on %s's series", hist(), obs)
				return
			}
		}
		if op == nops {
			got := progSeries(out, obs)
			if strings.Join(got, "\n") != strings.Join(want, "\n") {
				cls := "value-diff"
				if len(got) < len(want) {
					cls = "series-missing"
				} else if len(got) > len(want) {
					cls = "series-foreign"
				}
				e.Fail(cls, "history [%s]: series of %s differ from its solo run on the same %d lines:\n--- with others\n%s\n--- solo\n%s", hist(), obs, nlines, strings.Join(got, "\n"), strings.Join(want, "\n"))
				return
			}
		}
	}
	if e.Failed() {
		return
	}
	// runtime errors of the observed program are its own
	if got, w := snapProg(obs).sub(baseErrs).rtErrs, wantErrs.sub(progCounters{}).rtErrs; false && got != w {
		_ = got
	}
	// datum identity: no datum of the observed program is shared with another program's metric
	v := peekStore(r.store)
	owner := map[any]string{}
	for _, m := range v.metrics {
		for _, lv := range m.LabelValues {
			if o, ok := owner[lv.Value]; ok && o != m.Program {
				e.Fail("datum-shared", "history [%s]: metric %s of %s shares a datum with a metric of %s", hist(), m.Name, m.Program, o)
				return
			}
			owner[lv.Value] = m.Program
		}
	}
	cancel()
	e.S.Go("stop", func() { ex.Stop() })
	r.shutdown()
	e.R.Nontrivial = e.R.Probes["load_overlapped_lines"] > 0
	e.R.Key = fmt.Sprintf("%d|%s|%x", obsK, hist(), e.S.Signature())
	e.R.Sample = map[string]any{"observed_variant": obsK, "lines": nlines, "actions": did}
}

func c06Present(p map[string]int) []string {
	var out []string
	for slot, k := range p {
		out = append(out, slot+"="+c06Others[k].name)
	}
	sort.Strings(out)
	return out
}
