//go:build go1.23

package verifsim

import (
	"context"
	"fmt"
	"os"
	"path/filepath"
	"sort"
	"strings"

	"github.com/google/mtail/internal/metrics"
	"github.com/google/mtail/internal/mtail"
)

// C19 — one-shot runs process every line once and then terminate.
//
// SUT: the real mtail.New(..., OneShot) + Server.Run: tailer, one-shot file
// streams, forwarders, runtime fan-out, VMs, store — every goroutine under the
// seeded scheduler. Witness programs count every line, every line per file
// (getfilename()), and whether each file's numbered lines arrived in order.

func init() { register("C19", propC19) }

const c19Witness = `counter n
counter perfile by f
gauge lastno by f
counter inorder by f
/$/ {
  n++
  perfile[getfilename()]++
}
/^(?P<no>\d+) / {
  $no > lastno[getfilename()] {
    inorder[getfilename()]++
  }
  lastno[getfilename()] = $no
}
`

// interleaving-insensitive programs (their results do not depend on how the files' lines interleave)
var c19Extra = []string{
	"counter total\nhidden gauge acc\ncounter big\n/^(?P<n>\\d+) / {\n  total++\n  acc = $n\n  acc > 4 {\n    big++\n  }\n}\n",
	"counter words by w\ncounter errs\n/^\\d+ (?P<w>\\w+)/ {\n  words[$w]++\n  errs += strtol($w, 10)\n}\n",
	"counter crlf_free\n/\\r/ {\n  crlf_free++\n}\n",
}

func c19GenFile(e *Env) (content string) {
	n := e.Choose("gen", 13)
	var sb strings.Builder
	no := 0
	for i := 0; i < n; i++ {
		switch e.Choose("gen", 9) {
		case 8:
			sb.WriteString("\r\n") // empty line of a CRLF log
		case 0:
			sb.WriteString("\n") // empty line
		case 1:
			no++
			fmt.Fprintf(&sb, "%d %s\r\n", no, []string{"abc", "7", "x1", "42"}[e.Choose("gen", 4)])
		default:
			no++
			fmt.Fprintf(&sb, "%d %s\n", no, []string{"abc", "7", "x1", "42"}[e.Choose("gen", 4)])
		}
	}
	if n > 0 && e.Choose("gen", 3) == 0 {
		no++
		fmt.Fprintf(&sb, "%d tail-without-newline", no)
	}
	return sb.String()
}

func propC19(e *Env) {
	e.S.StmtPreempt = e.Choose("knob", 3) == 1
	if e.Choose("knob", 2) == 1 {
		e.S.Quanta = []int{0, 0, 1, 1, 2, 3, 5, -1}
	}
	progs := filepath.Join(e.Dir, "progs")
	logs := filepath.Join(e.Dir, "logs")
	os.Mkdir(progs, 0o755)
	os.Mkdir(logs, 0o755)
	os.WriteFile(filepath.Join(progs, "witness.mtail"), []byte(c19Witness), 0o644)
	var extra []int
	for i := range c19Extra {
		if e.Choose("gen", 3) == 0 {
			extra = append(extra, i)
			os.WriteFile(filepath.Join(progs, fmt.Sprintf("extra%d.mtail", i)), []byte(c19Extra[i]), 0o644)
		}
	}
	nf := 1 + e.Choose("gen", 3)
	var paths []string
	contents := map[string]string{}
	for i := 0; i < nf; i++ {
		p := filepath.Join(logs, fmt.Sprintf("f%d.log", i))
		c := c19GenFile(e)
		os.WriteFile(p, []byte(c), 0o644)
		paths = append(paths, p)
		contents[p] = c
	}
	// patterns: each file by name, or one glob
	var patterns []string
	if e.Bool("gen") {
		patterns = []string{filepath.Join(logs, "*.log")}
		if e.Choose("gen", 3) == 0 {
			// an entry the glob matches but that cannot be tailed (a device node behind a
			// symlink), sorting before or between the real logs: the others must still be read
			name := []string{"000.log", "f0z.log", "zzz.log"}[e.Choose("gen", 3)]
			if os.Symlink("/dev/null", filepath.Join(logs, name)) == nil {
				e.Probe("untailable_glob_match")
			}
		}
	} else {
		patterns = paths
	}
	base := map[string]progCounters{}
	for _, i := range extra {
		base[fmt.Sprintf("extra%d.mtail", i)] = snapProg(fmt.Sprintf("extra%d.mtail", i))
	}
	enableShortReads(e)
	store := metrics.NewStore()
	ctx, cancel := context.WithCancel(context.Background())
	defer cancel()
	var srv *mtail.Server
	var nerr, rerr error
	returned := false
	e.S.Go("mtail", func() {
		srv, nerr = mtail.New(ctx, store, mtail.ProgramPath(progs), mtail.LogPathPatterns(patterns...), mtail.OneShot)
		if nerr != nil {
			returned = true
			return
		}
		rerr = srv.Run()
		returned = true
	})
	quiet := e.S.Run(3000000)
	desc := func() string {
		var ds []string
		for _, p := range paths {
			ds = append(ds, fmt.Sprintf("%s=%q", filepath.Base(p), trunc(contents[p], 120)))
		}
		return fmt.Sprintf("programs witness+%v, files %s", extra, strings.Join(ds, " "))
	}
	if nerr != nil {
		e.Broken("mtail.New: %v", nerr)
		return
	}
	if !quiet || !returned {
		e.Fail("run-did-not-return", "%s: Server.Run did not return within %d scheduler steps (quiescent=%v); live: %s", desc(), e.S.Steps, quiet, liveString(e))
		return
	}
	if rerr != nil {
		e.Fail("run-error", "%s: Server.Run returned %v", desc(), rerr)
		return
	}
	if live := e.S.Live(); len(live) > 0 {
		e.Fail("task-left", "%s: Server.Run returned but tasks remain: %s", desc(), liveString(e))
		return
	}
	// ---- expected counts from the harness's own splitter --------------------
	v := peekStore(store)
	total := int64(0)
	for _, p := range paths {
		lines := c15Expected(contents[p])
		total += int64(len(lines))
		numbered := int64(0)
		for _, l := range lines {
			var k int
			if n, _ := fmt.Sscanf(l, "%d ", &k); n == 1 && strings.Contains(l, " ") {
				numbered++
			}
		}
		got, _ := v.intOf("perfile", "witness.mtail", p)
		if got != int64(len(lines)) {
			cls := "line-lost"
			if got > int64(len(lines)) {
				cls = "line-duplicated"
			}
			e.Fail(cls, "%s: %s has %d lines, the witness program counted %d for it", desc(), filepath.Base(p), len(lines), got)
			return
		}
		ord, _ := v.intOf("inorder", "witness.mtail", p)
		if ord != numbered {
			e.Fail("file-order", "%s: %s has %d numbered lines in increasing order, but only %d of them arrived after a smaller number (lines of one file were reordered)", desc(), filepath.Base(p), numbered, ord)
			return
		}
	}
	if got, _ := v.intOf("n", "witness.mtail"); got != total {
		cls := "line-lost"
		if got > total {
			cls = "line-duplicated"
		}
		e.Fail(cls, "%s: %d lines in all files, the witness program counted %d", desc(), total, got)
		return
	}
	// ---- extra programs vs a sequential reference (file by file) ------------
	if len(extra) > 0 {
		refDir := filepath.Join(e.Dir, "refprogs")
		os.Mkdir(refDir, 0o755)
		for _, i := range extra {
			os.WriteFile(filepath.Join(refDir, fmt.Sprintf("extra%d.mtail", i)), []byte(c19Extra[i]), 0o644)
		}
		ref := newRtRig(e, refDir)
		if !ref.quiesce() || !ref.started || ref.err != nil {
			e.Broken("reference runtime: %v", ref.err)
			return
		}
		for _, p := range paths {
			done := false
			ref.feed(p, c15Expected(contents[p]), &done)
			if !ref.quiesce() || !done {
				e.Broken("reference run stalled")
				return
			}
		}
		rv := peekStore(ref.store)
		ref.shutdown()
		var keys []string
		seen := map[string]bool{}
		for k := range rv.vals {
			seen[k] = true
		}
		for k := range v.vals {
			if !strings.Contains(k, "{witness.mtail}") {
				seen[k] = true
			}
		}
		for k := range seen {
			keys = append(keys, k)
		}
		sort.Strings(keys)
		for _, k := range keys {
			if rv.vals[k] != v.vals[k] {
				e.Fail("final-metrics", "%s: %s is %q after the one-shot run, %q after running the same program over the files one after the other", desc(), k, v.vals[k], rv.vals[k])
				return
			}
		}
	}
	e.R.Nontrivial = nf >= 2 && total >= 4
	e.R.Key = fmt.Sprintf("%s|%x", desc(), e.S.Signature())
	e.R.Sample = map[string]any{"files": nf, "lines": total, "extra_programs": extra, "glob": len(patterns) == 1 && nf > 1}
}
