//go:build go1.23

package verifsim

import (
	"context"
	"fmt"
	"os"
	"path/filepath"
	"sort"
	"strings"
	"time"

	"github.com/google/mtail/internal/metrics"
)

// C14 — program reload preserves state and never duplicates series.
//
// SUT: the real runtime/loader, store (Add and its de-duplication), VMs, GC
// and the real Prometheus gather. Histories over a family of versions of a
// program p (identical, comment-only edit, declaration moved, kind / type /
// keys changed, syntax error) and of a second program q (whose load is refused
// for a kind conflict after it has already declared another metric),
// interleaved with lines, delayed deletes, clock advances and GC passes.
//
// The model interprets the lines itself:  "<tag> <n>"  ->  hits++,
// bytag[tag]++, g = n ;  "del <tag>"  ->  bytag[tag] expires 1h after its
// last update.

func init() { register("C14", propC14) }

const (
	c14Base = iota
	c14Comment
	c14Moved
	c14Kind
	c14Type
	c14Keys
	c14Syntax
	c14KindLater
	c14NumVersions
)

var c14VersionNames = []string{"identical", "comment-only-edit", "declaration-moved", "kind-changed", "type-changed", "keys-changed", "syntax-error", "later-declaration-kind-changed"}

func c14Source(variant, edit int) string {
	hits := "counter hits"
	bytag := "counter bytag by tag"
	idx := "bytag[$tag]"
	num := `\d+`
	head := ""
	switch variant {
	case c14Moved:
		head = "# moved\n"
	case c14Kind:
		hits = "gauge hits"
	case c14Type:
		num = `\d+\.\d+|\d+`
	case c14Keys:
		bytag = "counter bytag by tag, n"
		idx = "bytag[$tag][$n]"
	case c14KindLater:
		bytag = "gauge bytag by tag"
	}
	// lat: a histogram without keys (its single datum exists from the moment the program is loaded)
	body := fmt.Sprintf("%s%s\n%s\ngauge g\nhistogram lat buckets 1, 2, 4\n/^(?P<tag>[a-e]) (?P<n>%s)$/ {\n  hits++\n  %s++\n  g = $n\n  lat = $n\n}\n", head, hits, bytag, num, idx)
	if variant != c14Keys {
		body += "/^del (?P<tag>[a-e])$/ {\n  del bytag[$tag] after 1h\n}\n"
	}
	if variant == c14Syntax {
		body += "/unterminated {\n"
	}
	for i := 0; i < edit; i++ {
		body += "# edit\n"
	}
	return body
}

// q declares a harmless metric first and then one that conflicts in kind with p's.
func c14SourceQ(conflict bool) string {
	if conflict {
		return "counter qonly\ngauge hits\n/./ {\n  qonly++\n  hits = 1\n}\n"
	}
	return "counter qonly\n/./ {\n  qonly++\n}\n"
}

type c14Model struct {
	hits     int64
	g        int64
	gSet     bool
	bytag    map[string]int64
	expiry   map[string]time.Duration
	order    []string
	tracking bool // false after a reload for which the statement promises nothing about kept values
}

func (m *c14Model) line(l string) {
	var tag string
	var n int64
	if _, err := fmt.Sscanf(l, "del %s", &tag); err == nil && strings.HasPrefix(l, "del ") {
		if _, ok := m.bytag[tag]; ok {
			m.expiry[tag] = time.Hour
		}
		return
	}
	if _, err := fmt.Sscanf(l, "%s %d", &tag, &n); err == nil {
		m.hits++
		if _, ok := m.bytag[tag]; !ok {
			m.order = append(m.order, tag)
		}
		m.bytag[tag]++
		m.g = n
		m.gSet = true
	}
}

func (m *c14Model) gc(lastUpdate map[string]time.Time, now time.Time) {
	for tag, exp := range m.expiry {
		if exp > 0 && now.Sub(lastUpdate[tag]) > exp {
			delete(m.bytag, tag)
			delete(m.expiry, tag)
			for i, t := range m.order {
				if t == tag {
					m.order = append(m.order[:i], m.order[i+1:]...)
					break
				}
			}
		}
	}
}

func propC14(e *Env) {
	dir := filepath.Join(e.Dir, "progs")
	os.Mkdir(dir, 0o755)
	e.S.StmtPreempt = e.Choose("knob", 3) == 1
	p, q := "p.mtail", "q.mtail"
	edit := 0
	curVariant := c14Base
	os.WriteFile(filepath.Join(dir, p), []byte(c14Source(c14Base, 0)), 0o644)
	ctx, cancel := context.WithCancel(context.Background())
	defer cancel()
	store := metrics.NewStore()
	ex, ps := newDaemonExport(e, ctx, store)
	if ex == nil {
		return
	}
	r := newRtRigStore(e, dir, store, swarmRtOpts(e)...)
	if !r.quiesce() {
		return
	}
	if !r.started || r.err != nil {
		e.Broken("runtime.New: %v", r.err)
		return
	}
	model := &c14Model{bytag: map[string]int64{}, expiry: map[string]time.Duration{}, tracking: true}
	loaded := true // p is currently loaded
	lastUpdate := map[string]time.Time{}
	var did []string
	hist := func() string { return strings.Join(did, "; ") }

	scrape := func() (string, error) {
		var out string
		var err error
		done := false
		e.S.Go("scrape", func() { out, err = ps.Scrape(); done = true })
		if !r.quiesce() {
			return "", fmt.Errorf("not quiescent")
		}
		if !done {
			e.Fail("scrape-stuck", "history [%s]: Prometheus scrape did not finish; live: %s", hist(), liveString(e))
			return "", fmt.Errorf("stuck")
		}
		return out, err
	}
	// checkExport: (d) gather must succeed, no duplicate series
	checkExport := func(after string) (string, bool) {
		out, err := scrape()
		if e.Failed() {
			return "", false
		}
		if err != nil {
			cls := "gather-error"
			if strings.Contains(err.Error(), "collected before with the same name and label values") {
				cls = "duplicate-series"
			}
			e.Fail(cls+":after-"+after, "history [%s]: the Prometheus scrape fails: %s", hist(), trunc(err.Error(), 400))
			return "", false
		}
		return out, true
	}
	// compare model <-> store for program p's kept declarations
	checkState := func(after string) bool {
		if !model.tracking {
			return true
		}
		v := peekStore(r.store)
		if got, ok := v.intOf("hits", p); (!ok && model.hits > 0) || got != model.hits {
			e.Fail("kept-decl-lost-values:after-"+after, "history [%s]: counter hits of %s is %d, the lines matched so far number %d", hist(), p, got, model.hits)
			return false
		}
		if got, ok := v.intOf("g", p); model.gSet && (!ok || got != model.g) {
			e.Fail("kept-decl-lost-values:after-"+after, "history [%s]: gauge g of %s is %d, the last matching line set %d", hist(), p, got, model.g)
			return false
		}
		var live []string
		for _, m := range v.metrics {
			if m.Name == "bytag" && m.Program == p {
				for _, lv := range m.LabelValues {
					live = append(live, lv.Labels[0])
					tag := lv.Labels[0]
					want, ok := model.bytag[tag]
					if !ok {
						e.Fail("kept-decl-lost-values:after-"+after, "history [%s]: bytag[%s] is exported but should have been removed", hist(), tag)
						return false
					}
					if got := lv.Value.ValueString(); got != fmt.Sprint(want) {
						e.Fail("kept-decl-lost-values:after-"+after, "history [%s]: bytag[%s] is %s, model %d", hist(), tag, got, want)
						return false
					}
					if lv.Expiry != model.expiry[tag] {
						e.Fail("kept-decl-lost-expiry:after-"+after, "history [%s]: bytag[%s] has pending expiry %v, the delayed delete set %v", hist(), tag, lv.Expiry, model.expiry[tag])
						return false
					}
				}
			}
		}
		sort.Strings(live)
		var want []string
		for t := range model.bytag {
			want = append(want, t)
		}
		sort.Strings(want)
		if strings.Join(live, ",") != strings.Join(want, ",") {
			e.Fail("kept-decl-lost-values:after-"+after, "history [%s]: bytag holds tuples %v, model %v", hist(), live, want)
			return false
		}
		return true
	}
	feed := func(ls []string) bool {
		done := false
		r.feed("log", ls, &done)
		if !r.quiesce() {
			return false
		}
		if !done {
			e.Fail("line-not-accepted", "history [%s]: the runtime stopped accepting lines; live: %s", hist(), liveString(e))
			return false
		}
		now := time.Now()
		for _, l := range ls {
			if !loaded {
				continue // nobody is listening
			}
			if curVariant != c14Keys || !strings.HasPrefix(l, "del ") {
				model.line(l)
			}
			var tag string
			var n int
			if _, err := fmt.Sscanf(l, "%s %d", &tag, &n); err == nil && !strings.HasPrefix(l, "del ") {
				lastUpdate[tag] = now
			}
		}
		return true
	}
	genLines := func(k int) []string {
		var ls []string
		for i := 0; i < k; i++ {
			tag := string(rune('a' + e.Choose("gen", 3)))
			if e.Choose("gen", 5) == 0 {
				ls = append(ls, "del "+tag)
			} else {
				ls = append(ls, fmt.Sprintf("%s %d", tag, 1+e.Choose("gen", 9)))
			}
		}
		return ls
	}
	resync := func() {
		// the statement promises nothing about values after this kind of reload: stop tracking values
		model.tracking = false
	}

	if !feed(genLines(2 + e.Choose("gen", 4))) {
		return
	}
	did = append(did, "lines")
	if !checkState("lines") {
		return
	}
	if _, ok := checkExport("lines"); !ok {
		return
	}
	nact := 1 + e.Choose("gen", 7)
	for i := 0; i < nact && !e.Failed(); i++ {
		switch a := e.Choose("gen", 11); {
		case a == 10 && loaded: // the program file disappears: p is unloaded, its metrics stay exported
			os.Remove(filepath.Join(dir, p))
			relDone := false
			r.reload(&relDone, nil)
			if !r.quiesce() {
				return
			}
			if !relDone {
				e.Fail("reload-stuck", "history [%s]: reload after removing p did not return; live: %s", hist(), liveString(e))
				return
			}
			loaded = false
			did = append(did, "unload p")
			e.Probe("unload")
			if !checkState("unload") {
				return
			}
			if _, ok := checkExport("unload"); !ok {
				return
			}
		case a <= 4 || a == 10: // reload p with some version (or load it again after an unload)
			variant := e.Choose("gen", c14NumVersions)
			name := c14VersionNames[variant]
			wasLoaded := loaded
			if !wasLoaded {
				e.Probe("load_after_unload")
			}
			if variant == c14Comment {
				edit++
			}
			src := c14Source(variant, edit)
			if variant == c14Base {
				src = c14Source(curVariant, edit) // identical to what is loaded
				variant = curVariant
			}
			beforeOut, ok := checkExport("pre-reload")
			if !ok {
				return
			}
			beforeView := peekStore(r.store)
			beforeCnt := snapProg(p)
			os.WriteFile(filepath.Join(dir, p), []byte(src), 0o644)
			// lines may flow during the reload
			var ls []string
			fedDone := true
			if e.Choose("gen", 3) == 0 {
				ls = genLines(1 + e.Choose("gen", 4))
				fedDone = false
				r.feed("log", ls, &fedDone)
				e.Probe("reload_while_lines_flow")
			}
			relDone := false
			r.reload(&relDone, nil)
			if !r.quiesce() {
				return
			}
			if !relDone || !fedDone {
				e.Fail("reload-stuck", "history [%s] then reload %s: reload done=%v feeder done=%v; live: %s", hist(), name, relDone, fedDone, liveString(e))
				return
			}
			delta := snapProg(p).sub(beforeCnt)
			did = append(did, "reload p:"+name)
			e.Probe("reload_" + name)
			didLoad := delta.loads > 0
			now := time.Now()
			if didLoad {
				loaded = true
			}
			if !wasLoaded {
				did[len(did)-1] = "load again p:" + name
			}
			switch {
			case name == "identical" && !wasLoaded:
				// the same text as the version that was unloaded: declarations kept, values carried over
				if delta.loads != 1 {
					e.Fail("eligible-not-loaded", "history [%s]: p was put back unchanged but was not loaded (loads=%d errors=%d)", hist(), delta.loads, delta.loadErrs)
					return
				}
				for _, l := range ls {
					_ = l // lines that flowed while p was being loaded may or may not have reached it
					resync()
				}
				e.Probe("kept_declarations_reload")
			case name == "identical":
				if delta.loads != 0 || delta.loadErrs != 0 || delta.unloads != 0 {
					e.Fail("identical-reload-changed-state", "history [%s]: reloading identical source counted loads=%d errors=%d unloads=%d", hist(), delta.loads, delta.loadErrs, delta.unloads)
					return
				}
				if len(ls) == 0 {
					after := peekStore(r.store)
					if fmt.Sprint(after.vals) != fmt.Sprint(beforeView.vals) || len(after.metrics) != len(beforeView.metrics) {
						e.Fail("identical-reload-changed-state", "history [%s]: reloading identical source changed the store: %v -> %v", hist(), beforeView.vals, after.vals)
						return
					}
				}
				for _, l := range ls {
					model.line(l)
					var tag string
					var n int
					if _, err := fmt.Sscanf(l, "%s %d", &tag, &n); err == nil && !strings.HasPrefix(l, "del ") {
						lastUpdate[tag] = now
					}
				}
			case variant == c14Syntax || !didLoad:
				// failed load (compile error, or registration refused): the export
				// stays exactly as it was and the previous version keeps running
				if variant == c14Syntax && didLoad {
					e.Fail("broken-program-loaded", "history [%s]: a program with a syntax error counted as loaded", hist())
					return
				}
				e.Probe("failed_load")
				if len(ls) == 0 {
					afterOut, ok := checkExport(name)
					if !ok {
						return
					}
					if afterOut != beforeOut {
						e.Fail("failed-load-changed-export:"+name, "history [%s]: the load failed but the exposition changed:\n--- before\n%s\n--- after\n%s", hist(), trunc(beforeOut, 1500), trunc(afterOut, 1500))
						return
					}
				}
				for _, l := range ls {
					if !wasLoaded {
						continue
					}
					if curVariant != c14Keys || !strings.HasPrefix(l, "del ") {
						model.line(l)
					}
					var tag string
					var n int
					if _, err := fmt.Sscanf(l, "%s %d", &tag, &n); err == nil && !strings.HasPrefix(l, "del ") {
						lastUpdate[tag] = now
					}
				}
				// the previous version must still be running and exported: feed a line that creates a NEW tuple
				if model.tracking && wasLoaded {
					probe := []string{"d 7", "e 3", "a 1"}
					if !feed(probe) {
						return
					}
					if !checkState("failed-load:" + name) {
						if e.R.Class != "" && strings.HasPrefix(e.R.Class, "kept-decl") {
							e.R.Class = "failed-load-orphaned-old-version:" + name
						}
						return
					}
				}
			default:
				// successful load of an edited program
				if !wasLoaded && len(ls) > 0 {
					resync()
				}
				for _, l := range ls {
					// each line was processed by exactly one version; both interpret lines identically except keys-changed
					if variant == c14Keys || curVariant == c14Keys {
						resync()
					}
					model.line(l)
					var tag string
					var n int
					if _, err := fmt.Sscanf(l, "%s %d", &tag, &n); err == nil && !strings.HasPrefix(l, "del ") {
						lastUpdate[tag] = now
					}
				}
				if variant != c14Comment && !(variant == curVariant) {
					resync() // declarations are not "the same at the same place": no promise about values
				}
				if curVariant != c14Base && curVariant != c14Comment && variant == c14Comment {
					resync()
				}
				curVariant = variant
				if variant == c14Comment {
					curVariant = c14Base
					e.Probe("kept_declarations_reload")
				}
			}
			if !checkState("reload:" + name) {
				return
			}
			if _, ok := checkExport("reload:" + name); !ok {
				return
			}
		case a == 5: // q appears, conflicting or not, or disappears
			conflict := e.Bool("gen")
			beforeOut, ok := checkExport("pre-q")
			if !ok {
				return
			}
			if _, err := os.Stat(filepath.Join(dir, q)); err == nil && e.Bool("gen") {
				os.Remove(filepath.Join(dir, q))
				did = append(did, "remove q")
			} else {
				os.WriteFile(filepath.Join(dir, q), []byte(c14SourceQ(conflict)), 0o644)
				did = append(did, fmt.Sprintf("load q (conflict=%v)", conflict))
			}
			beforeQ := snapProg(q)
			relDone := false
			r.reload(&relDone, nil)
			if !r.quiesce() {
				return
			}
			if !relDone {
				e.Fail("reload-stuck", "history [%s]: reload did not return; live: %s", hist(), liveString(e))
				return
			}
			dq := snapProg(q).sub(beforeQ)
			if strings.HasPrefix(did[len(did)-1], "load q") && conflict && curVariant != c14Kind {
				e.Probe("registration_refused")
				if dq.loads != 0 {
					e.Fail("conflicting-program-loaded", "history [%s]: q declares gauge hits while p holds counter hits, yet q counted as loaded", hist())
					return
				}
				afterOut, ok := checkExport("q-refused")
				if !ok {
					return
				}
				if afterOut != beforeOut {
					e.Fail("failed-load-changed-export:registration-refused", "history [%s]: the load of q was refused but the exposition changed:\n--- before\n%s\n--- after\n%s", hist(), trunc(beforeOut, 1200), trunc(afterOut, 1200))
					return
				}
			}
			if !checkState("q") {
				return
			}
			if _, ok := checkExport("q"); !ok {
				return
			}
		case a == 6: // time passes, then GC
			d := []time.Duration{10 * time.Minute, 59 * time.Minute, 61 * time.Minute, 3 * time.Hour}[e.Choose("gen", 4)]
			e.S.Advance(d)
			var gerr error
			done := false
			e.S.Go("gc", func() { gerr = r.store.Gc(); done = true })
			if !r.quiesce() {
				return
			}
			if !done || gerr != nil {
				e.Fail("gc-stuck", "history [%s]: Gc done=%v err=%v", hist(), done, gerr)
				return
			}
			model.gc(lastUpdate, time.Now())
			did = append(did, fmt.Sprintf("advance %v + gc", d))
			e.Probe("gc")
			if !checkState("gc") {
				return
			}
		default:
			ls := genLines(1 + e.Choose("gen", 5))
			if !feed(ls) {
				return
			}
			did = append(did, fmt.Sprintf("lines %v", ls))
			if !checkState("lines") {
				return
			}
			if _, ok := checkExport("lines"); !ok {
				return
			}
		}
	}
	if e.Failed() {
		return
	}
	cancel()
	e.S.Go("stop", func() { ex.Stop() })
	r.shutdown()
	e.R.Nontrivial = e.R.Probes["kept_declarations_reload"]+e.R.Probes["failed_load"]+e.R.Probes["registration_refused"] > 0
	e.R.Key = strings.Join(did, ";") + fmt.Sprintf("|%x", e.S.Signature())
	e.R.Sample = map[string]any{"actions": did}
	_ = metrics.Counter
}
