//go:build go1.23

// Package verifsim holds the simulation harnesses, one per property. It is
// copied into the scratch copy of the mtail tree (as ./verifsim) by the check
// driver, so it can import mtail's internal packages, and built as a test
// binary because testing/synctest needs a *testing.T.
package verifsim

import (
	"encoding/json"
	"fmt"
	"hash/fnv"
	"os"
	"sort"
	"strings"
	"sync/atomic"
	"testing"
	"time"

	"github.com/google/mtail/internal/simrt"
)

// Result is what one simulated run reports (one JSON line in the worker's
// output file).
type Result struct {
	Prop       string           `json:"prop"`
	Seed       uint64           `json:"seed"`
	OK         bool             `json:"ok"`
	Class      string           `json:"class,omitempty"` // violation class
	Msg        string           `json:"msg,omitempty"`
	Machinery  string           `json:"machinery,omitempty"` // non-empty: the run is not a verdict (exit 2)
	Steps      int              `json:"steps"`
	SimNs      int64            `json:"sim_ns"`
	Sig        string           `json:"sig"`
	Key        string           `json:"key,omitempty"` // identity of the case for distinct counting
	Nontrivial bool             `json:"nontrivial"`
	Evals      int              `json:"evals"` // cases evaluated inside this run (1 unless the run enumerates)
	Distinct   int              `json:"distinct,omitempty"`
	Faults     map[string]int   `json:"faults,omitempty"`
	Probes     map[string]int   `json:"probes,omitempty"`
	Sample     any              `json:"sample,omitempty"`
	Tapes      map[string][]int `json:"tapes,omitempty"`
	Decisions  int              `json:"decisions"`
	Pairs      int              `json:"pairs"`
	Tasks      int              `json:"tasks"`
	WallUs     int64            `json:"wall_us"`
	TraceHash  string           `json:"trace_hash,omitempty"`
	Extra      map[string]any   `json:"extra,omitempty"`
}

// Env is what a property harness gets.
type Env struct {
	T     *testing.T
	S     *simrt.Sim
	C     *simrt.Choices
	R     *Result
	Tier  string // quick | thorough
	Dir   string // per-run scratch directory on the real filesystem
	start time.Time
	ev    *fnvLog
	Knob  map[string]int
}

type fnvLog struct {
	h   uint64
	n   int
	buf []string
}

// Event appends to the run's canonical event log (hashed into TraceHash; the
// determinism self-test compares these hashes between processes). Never put
// pointers, paths of temp dirs or wall-clock values in it.
func (e *Env) Event(format string, args ...any) {
	s := fmt.Sprintf(format, args...)
	h := fnv.New64a()
	var b [8]byte
	for i := 0; i < 8; i++ {
		b[i] = byte(e.ev.h >> (8 * i))
	}
	h.Write(b[:])
	h.Write([]byte(s))
	e.ev.h = h.Sum64()
	e.ev.n++
	if len(e.ev.buf) < 4000 {
		e.ev.buf = append(e.ev.buf, s)
	}
}

// Choose draws from the run's choice streams.
func (e *Env) Choose(kind string, n int) int { return e.C.Choose(kind, n) }

// Bool is Choose(kind,2)==1.
func (e *Env) Bool(kind string) bool { return e.C.Choose(kind, 2) == 1 }

// Range returns a value in [lo,hi].
func (e *Env) Range(kind string, lo, hi int) int {
	if hi <= lo {
		return lo
	}
	return lo + e.C.Choose(kind, hi-lo+1)
}

// Fail records a violation (the first one wins).
func (e *Env) Fail(class, format string, args ...any) {
	if e.R.OK {
		e.R.OK = false
		e.R.Class = class
		e.R.Msg = fmt.Sprintf(format, args...)
	}
}

// Failed reports whether a violation was already recorded.
func (e *Env) Failed() bool { return !e.R.OK }

// Broken records that the machinery, not mtail, is at fault.
func (e *Env) Broken(format string, args ...any) {
	if e.R.Machinery == "" {
		e.R.Machinery = fmt.Sprintf(format, args...)
	}
}

func (e *Env) Fault(kind string) {
	if e.R.Faults == nil {
		e.R.Faults = map[string]int{}
	}
	e.R.Faults[kind]++
}

func (e *Env) Probe(name string) {
	if e.R.Probes == nil {
		e.R.Probes = map[string]int{}
	}
	e.R.Probes[name]++
}

func (e *Env) ProbeN(name string, n int) {
	if e.R.Probes == nil {
		e.R.Probes = map[string]int{}
	}
	e.R.Probes[name] += n
}

// SimNow is the simulated time since the bubble's epoch.
func (e *Env) SimElapsed() time.Duration { return time.Since(e.start) }

// PropFunc is one property harness.
type PropFunc func(e *Env)

var props = map[string]PropFunc{}

func register(id string, f PropFunc) { props[id] = f }

func propIDs() []string {
	var ids []string
	for k := range props {
		ids = append(ids, k)
	}
	sort.Strings(ids)
	return ids
}

// SimWaker is the simulator's waker.Waker: Wake returns the current channel;
// Tick (a controller action) closes it and installs a new one, the same
// contract as mtail's timed waker.
type SimWaker struct {
	ch    atomic.Pointer[chan struct{}]
	Ticks int
	// adv, if set, makes Tick advance the simulated clock instead: the tailer was
	// given mtail's real timed waker (a ticker goroutine under the fake clock)
	// and this object is only the harness's handle for "let a poll happen".
	adv func()
}

func NewSimWaker() *SimWaker {
	w := &SimWaker{}
	c := make(chan struct{})
	w.ch.Store(&c)
	return w
}

func (w *SimWaker) Wake() <-chan struct{} { return *w.ch.Load() }

// Tick wakes everything waiting on the waker. Controller only, with all tasks
// stopped.
func (w *SimWaker) Tick() {
	if w.adv != nil {
		w.Ticks++
		w.adv()
		return
	}
	c := make(chan struct{})
	old := w.ch.Swap(&c)
	close(*old)
	w.Ticks++
}

func jsonLine(v any) []byte {
	b, err := json.Marshal(v)
	if err != nil {
		panic(err)
	}
	return append(b, '\n')
}

func mustMkdirTemp(prefix string) string {
	base := os.Getenv("VERIF_TMP")
	d, err := os.MkdirTemp(base, prefix)
	if err != nil {
		panic(err)
	}
	return d
}

func trunc(s string, n int) string {
	if len(s) <= n {
		return s
	}
	return s[:n] + "…"
}

func quoteList(ss []string) string {
	var q []string
	for _, s := range ss {
		q = append(q, fmt.Sprintf("%q", s))
	}
	return "[" + strings.Join(q, " ") + "]"
}

func (r *Result) faultAdd(kind string, n int) {
	if n == 0 {
		return
	}
	if r.Faults == nil {
		r.Faults = map[string]int{}
	}
	r.Faults[kind] += n
}

func lookupEnvInt(name string) (int, bool) {
	v := os.Getenv(name)
	if v == "" {
		return 0, false
	}
	var n int
	if _, err := fmt.Sscanf(v, "%d", &n); err != nil {
		return 0, false
	}
	return n, true
}

// avoid reports whether this run should steer clear of the trigger of a known
// finding (VERIF_AVOID lists the triggers; three runs out of four avoid them,
// so that a recorded defect does not mask other violations, while the fourth
// keeps exercising it).
func avoid(e *Env, trigger string) bool {
	list := os.Getenv("VERIF_AVOID")
	if list == "" {
		return false
	}
	for _, t := range strings.Split(list, ",") {
		if t == trigger {
			return e.R.Seed%4 != 0
		}
	}
	return false
}
