//go:build go1.23

package verifsim

import (
	"context"
	"fmt"
	"os"
	"path/filepath"
	"strings"
	"sync"
	"time"

	"github.com/google/mtail/internal/logline"
	"github.com/google/mtail/internal/simrt"
	"github.com/google/mtail/internal/tailer"
	"github.com/google/mtail/internal/waker"
)

// C16 — a tailed file delivers every appended line exactly once across
// truncation, rotation, deletion and re-creation.
//
// SUT: the real tailer.Tailer + fileStream + LineReader on the real
// filesystem, pollers driven by simulated wakers, all goroutines under the
// seeded scheduler. Every filesystem step is a controller action followed by
// an *observation* (stream tick, pattern tick, stream tick, each run to
// quiescence, until a full round delivers nothing new) — the statement's
// premise "the tailer has observed each step before the next one happens".

func init() { register("C16", propC16) }

const (
	aLine = iota
	aFragment
	aCRLF
	aTruncate
	aRenameCreate
	aCopyTruncate
	aDelete
	aRecreate
	aPoll
	aStale // clock jump > 24h between observations
	c16NumActions
)

var c16Names = []string{"line", "fragment", "crlf", "truncate", "rename-rotate", "copy-truncate", "delete", "recreate", "poll", "clock-jump"}

// tailRig runs a Tailer with simulated wakers and collects what it delivers.
type tailRig struct {
	e        *Env
	ctx      context.Context
	cancel   context.CancelFunc
	wg       sync.WaitGroup
	lines    chan *logline.LogLine
	sw, pw   *SimWaker
	tl       *tailer.Tailer
	got      []*logline.LogLine
	startErr error
	started  bool
	consumed bool // consumer task saw the channel close
	mainID   int
}

func newTailRig(e *Env, opts ...tailer.Option) *tailRig {
	r := &tailRig{e: e, lines: make(chan *logline.LogLine), sw: NewSimWaker(), pw: NewSimWaker()}
	r.ctx, r.cancel = context.WithCancel(context.Background())
	enableShortReads(e)
	var all []tailer.Option
	if e.Choose("knob", 5) == 0 {
		// configuration variant: mtail's own timed wakers, driven by the fake clock
		const iv = 250 * time.Millisecond
		adv := func() { e.S.Advance(iv) }
		r.sw.adv, r.pw.adv = adv, adv
		all = append([]tailer.Option{tailer.LogPatternPollWaker(waker.NewTimed(r.ctx, iv)), tailer.LogstreamPollWaker(waker.NewTimed(r.ctx, iv))}, opts...)
		e.Probe("real_timed_wakers")
	} else {
		all = append([]tailer.Option{tailer.LogPatternPollWaker(r.pw), tailer.LogstreamPollWaker(r.sw)}, opts...)
	}
	r.mainID = e.S.Go("tailer.New", func() {
		r.tl, r.startErr = tailer.New(r.ctx, &r.wg, r.lines, all...)
		r.started = true
	})
	e.S.Go("consumer", func() {
		for {
			l, ok := simrt.Recv(r.lines)
			if !ok {
				r.consumed = true
				return
			}
			r.got = append(r.got, l)
		}
	})
	return r
}

// quiesce runs the scheduler until nothing is runnable.
func (r *tailRig) quiesce() bool {
	if !r.e.S.Run(400000) {
		if r.e.S.Livelock != "" {
			r.e.Fail("livelock", "a goroutine spins without ever blocking: %s", r.e.S.Livelock)
			return false
		}
		r.e.Fail("not-quiescent", "tailer did not become quiescent within the step budget (%d steps so far)", r.e.S.Steps)
		return false
	}
	return true
}

// observe lets the tailer see the current state of the filesystem.
func (r *tailRig) observe() bool {
	for round := 0; round < 5; round++ {
		before := len(r.got)
		r.sw.Tick()
		if !r.quiesce() {
			return false
		}
		r.pw.Tick()
		if !r.quiesce() {
			return false
		}
		r.sw.Tick()
		if !r.quiesce() {
			return false
		}
		if round >= 1 && len(r.got) == before {
			return true
		}
	}
	return true
}

// stop cancels the tailer and waits for everything to shut down.
func (r *tailRig) stop() bool {
	r.cancel()
	if !r.quiesce() {
		return false
	}
	// pollers/streams that were asleep when the cancellation arrived need no
	// tick (they select on the context), but give one anyway.
	r.sw.Tick()
	r.pw.Tick()
	if !r.quiesce() {
		return false
	}
	if !r.consumed {
		r.e.Fail("not-closed", "the tailer's output channel was not closed after cancellation; live tasks: %s", liveString(r.e))
		return false
	}
	if live := r.e.S.Live(); len(live) > 0 {
		r.e.Fail("goroutine-left", "tasks still alive after shutdown: %s", liveString(r.e))
		return false
	}
	return true
}

func liveString(e *Env) string {
	var s []string
	for _, t := range e.S.Live() {
		st := "blocked"
		if t.Parked {
			st = "runnable@" + t.Site
		}
		s = append(s, fmt.Sprintf("%s[%s]", t.Name, st))
	}
	return strings.Join(s, ", ")
}

func mustWrite(path string, data string, flag int) {
	f, err := os.OpenFile(path, flag, 0o644)
	if err != nil {
		panic(err)
	}
	if _, err := f.WriteString(data); err != nil {
		panic(err)
	}
	if err := f.Close(); err != nil {
		panic(err)
	}
}

func c16Decode(e *Env) []int {
	// The first seeds enumerate all short action sequences; later ones sample.
	idx := int(e.R.Seed % 1000003)
	n := c16NumActions
	total := 0
	pow := 1
	maxEnum := 3
	if e.Tier == "thorough" {
		maxEnum = 4
	}
	for l := 1; l <= maxEnum; l++ {
		pow *= n
		if idx < total+pow {
			k := idx - total
			seq := make([]int, l)
			for i := l - 1; i >= 0; i-- {
				seq[i] = k % n
				k /= n
			}
			e.Knob["enumerated"] = 1
			return seq
		}
		total += pow
	}
	l := 1 + e.Choose("gen", 12)
	seq := make([]int, l)
	for i := range seq {
		// bias towards appends so that rotations have something to lose
		if e.Choose("gen", 3) == 0 {
			seq[i] = e.Choose("gen", 3)
		} else {
			seq[i] = e.Choose("gen", n)
		}
	}
	return seq
}

func propC16(e *Env) {
	root := e.Dir
	if e.Choose("knob", 4) == 1 {
		if d, err := os.MkdirTemp("/dev/shm", "verif-c16-"); err == nil {
			root = d
			defer os.RemoveAll(d)
			e.Knob["tmpfs"] = 1
		}
	}
	e.S.StmtPreempt = e.Choose("knob", 3) == 1
	path := filepath.Join(root, "log")
	initial := []string{"", "old1\n", "old1\nold2\n"}[e.Choose("gen", 3)]
	mustWrite(path, initial, os.O_CREATE|os.O_WRONLY|os.O_TRUNC)
	seq := c16Decode(e)

	pats := []string{path}
	if e.Choose("knob", 3) == 0 {
		// the path also matches a second, overlapping pattern polled by its own goroutine
		pats = append(pats, filepath.Join(root, "lo?"))
		e.Probe("overlapping_patterns")
	}
	r := newTailRig(e, tailer.LogPatterns(pats))
	if !r.quiesce() {
		return
	}
	if !r.started || r.startErr != nil {
		e.Broken("tailer.New did not return: started=%v err=%v live=%s", r.started, r.startErr, liveString(e))
		return
	}
	if !r.observe() {
		return
	}

	// reference model
	exists := true
	pending := ""
	var want []string
	gen, n := 0, 0
	endGen := func(op string) {
		if pending != "" {
			want = append(want, pending)
			e.Probe("generation_ended_with_fragment")
			e.Probe("fragment_then_" + op)
			pending = ""
		}
		gen++
	}
	var did []string
	var lastOp string
	for step, a := range seq {
		if e.Failed() {
			break
		}
		// keep histories within the statement's premises
		if !exists && a != aRecreate && a != aPoll && a != aStale {
			a = aRecreate
		}
		if exists && a == aRecreate {
			a = aPoll
		}
		n++
		text := fmt.Sprintf("g%d-%d", gen, n)
		switch a {
		case aLine:
			mustWrite(path, text+"\n", os.O_APPEND|os.O_WRONLY)
			want = append(want, pending+text)
			pending = ""
		case aCRLF:
			mustWrite(path, text+"\r\n", os.O_APPEND|os.O_WRONLY)
			want = append(want, pending+text)
			pending = ""
		case aFragment:
			mustWrite(path, text+"~", os.O_APPEND|os.O_WRONLY)
			pending += text + "~"
		case aTruncate:
			if err := os.Truncate(path, 0); err != nil {
				panic(err)
			}
			endGen("truncate")
			e.Fault("truncate")
		case aRenameCreate:
			os.Remove(path + ".1")
			if err := os.Rename(path, path+".1"); err != nil {
				panic(err)
			}
			mustWrite(path, "", os.O_CREATE|os.O_WRONLY|os.O_EXCL)
			endGen("rename-rotate")
			e.Fault("rename_rotate")
		case aCopyTruncate:
			b, err := os.ReadFile(path)
			if err != nil {
				panic(err)
			}
			mustWrite(path+".1", string(b), os.O_CREATE|os.O_WRONLY|os.O_TRUNC)
			if err := os.Truncate(path, 0); err != nil {
				panic(err)
			}
			endGen("copy-truncate")
			e.Fault("copy_truncate")
		case aDelete:
			if err := os.Remove(path); err != nil {
				panic(err)
			}
			exists = false
			endGen("delete")
			e.Fault("delete")
		case aRecreate:
			mustWrite(path, "", os.O_CREATE|os.O_WRONLY|os.O_EXCL)
			exists = true
			e.Fault("recreate")
		case aPoll:
		case aStale:
			e.S.Advance(24*time.Hour + time.Duration(1+e.Choose("gen", 3600))*time.Second)
			if !r.quiesce() {
				return
			}
			// The stale-stream timer is armed by a read that returned data and
			// stopped by the next read attempt; a polled file stream always
			// follows a data read with an (empty) read at once, so a clock jump
			// between observations must have no effect at all.
			e.Fault("clock_jump_25h")
		}
		did = append(did, c16Names[a])
		lastOp = c16Names[a]
		e.Event("step %d %s", step, c16Names[a])
		if !r.observe() {
			return
		}
		c16Compare(e, r, want, did, false)
	}
	if e.Failed() {
		r.cancel()
		return
	}
	if exists && e.Choose("gen", 6) == 0 {
		// a large burst (several read buffers) arrives and tailing stops before the next poll:
		// a stopping stream still reads what is there
		k := 2600 + e.Choose("gen", 600)
		var sb strings.Builder
		for i := 0; i < k; i++ {
			n++
			l := fmt.Sprintf("g%d-%d-%s", gen, n, strings.Repeat("z", 110))
			sb.WriteString(l + "\n")
			want = append(want, pending+l)
			pending = ""
		}
		mustWrite(path, sb.String(), os.O_APPEND|os.O_WRONLY)
		did = append(did, "burst")
		e.Probe("unread_backlog_at_stop")
	}
	// tailing stops: the fragment is delivered once as its own line
	if pending != "" {
		want = append(want, pending)
		e.Probe("generation_ended_with_fragment")
		e.Probe("fragment_then_stop")
		pending = ""
	}
	lastOp = "stop"
	_ = lastOp
	did = append(did, "stop")
	if !r.stop() {
		return
	}
	c16Compare(e, r, want, did, true)
	e.R.Nontrivial = e.R.Probes["generation_ended_with_fragment"] > 0 || e.R.Faults["rename_rotate"]+e.R.Faults["copy_truncate"]+e.R.Faults["truncate"] > 0
	e.R.Key = fmt.Sprintf("%s|%x", strings.Join(did, ","), e.S.Signature())
	e.R.Sample = map[string]any{"initial": initial, "actions": did, "delivered": len(r.got)}
}

func c16Compare(e *Env, r *tailRig, want []string, did []string, final bool) {
	if e.Failed() {
		return
	}
	var got []string
	for _, l := range r.got {
		got = append(got, l.Line)
	}
	op := did[len(did)-1]
	hist := strings.Join(did, " ")
	for i := 0; i < len(got) && i < len(want); i++ {
		if got[i] == want[i] {
			continue
		}
		g, w := got[i], want[i]
		switch {
		case strings.Contains(g, "~") && strings.HasPrefix(g, w) && len(g) > len(w):
			e.Fail("fragment-merged-after-"+op, "history [%s]: delivered %q where %q was expected (a flushed fragment merged with later data); delivered %s expected %s", hist, g, w, quoteList(got), quoteList(want))
		case strings.Count(g, "~") > strings.Count(w, "~") || (strings.HasSuffix(w, "~") == false && strings.Contains(g, w) && g != w):
			e.Fail("fragment-merged-after-"+op, "history [%s]: delivered %q where %q was expected; delivered %s expected %s", hist, g, w, quoteList(got), quoteList(want))
		case strings.HasSuffix(w, "~") && !strings.HasSuffix(g, "~"):
			e.Fail("fragment-lost-on-"+c16EndOp(did, w), "history [%s]: the unterminated fragment %q was never delivered as its own line (next delivery was %q); delivered %s expected %s", hist, w, g, quoteList(got), quoteList(want))
		case i > 0 && g == got[i-1]:
			e.Fail("line-duplicated-after-"+op, "history [%s]: %q delivered twice; delivered %s expected %s", hist, g, quoteList(got), quoteList(want))
		default:
			e.Fail("order", "history [%s]: position %d: delivered %q, expected %q; delivered %s expected %s", hist, i, g, w, quoteList(got), quoteList(want))
		}
		return
	}
	if len(got) > len(want) {
		x := got[len(want)]
		dup := false
		for _, w := range want {
			if w == x {
				dup = true
			}
		}
		cls := "unexpected-line-after-" + op
		if dup {
			cls = "line-duplicated-after-" + op
			if strings.HasSuffix(x, "~") {
				cls = "fragment-duplicated-on-" + op
			}
		} else if strings.Contains(x, "~") && !strings.HasSuffix(x, "~") {
			cls = "fragment-merged-after-" + op
		}
		e.Fail(cls, "history [%s]: extra delivery %q; delivered %s expected %s", hist, x, quoteList(got), quoteList(want))
		return
	}
	if len(got) < len(want) {
		w := want[len(got)]
		if strings.HasSuffix(w, "~") {
			e.Fail("fragment-lost-on-"+c16EndOp(did, w), "history [%s]: the unterminated fragment %q was not delivered; delivered %s expected %s", hist, w, quoteList(got), quoteList(want))
		} else {
			e.Fail("line-lost-after-"+op, "history [%s]: %q was not delivered; delivered %s expected %s", hist, w, quoteList(got), quoteList(want))
		}
	}
}

// c16EndOp names the operation that ended the generation holding fragment w:
// the first generation-ending action after the fragment was written. Texts
// are "g<gen>-<n>~": n is the 1-based index of the writing action.
func c16EndOp(did []string, w string) string {
	var g, n int
	last := w
	if i := strings.LastIndex(strings.TrimSuffix(w, "~"), "~"); i >= 0 {
		last = w[i+1:]
	}
	fmt.Sscanf(last, "g%d-%d~", &g, &n)
	for i := n; i < len(did); i++ {
		switch did[i] {
		case "truncate", "rename-rotate", "copy-truncate", "delete", "stale-cancel", "stop":
			return did[i]
		}
	}
	return "unknown"
}
