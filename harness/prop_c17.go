//go:build go1.23

package verifsim

import (
	"fmt"
	"strings"

	"github.com/google/mtail/internal/simrt"
	"github.com/google/mtail/internal/tailer"
)

// C17 — sockets deliver all bytes, never splice connections, then end.
//
// SUT: the real socketStream / dgramStream / cancel.go / LineReader reached
// through tailer.New with unix://, tcp://, unixgram:// and udp:// patterns.
// Transport: the in-memory simnet (net.Listen and net.ListenPacket are
// redirected by the instrumenter). 1-4 writer tasks connect, write a random
// chunking of uniquely tagged lines, optionally leave an unterminated tail,
// and close; the stream may be cancelled at a seeded step (including right
// after a connection was accepted and with bytes buffered but unread).

func init() { register("C17", propC17) }

type c17Writer struct {
	id      int
	lines   []string // full lines written (without newline)
	tail    string   // unterminated tail ("" none)
	sent    int      // bytes handed to the transport
	total   string   // the whole byte stream of this writer
	done    bool
	refused bool
}

func propC17(e *Env) {
	net := installSimNet(e)
	e.S.StmtPreempt = e.Choose("knob", 3) == 1
	schemes := []string{"unix", "tcp", "unixgram", "udp"}
	scheme := schemes[e.Choose("gen", len(schemes))]
	dgram := scheme == "unixgram" || scheme == "udp"
	var pattern, network, address string
	switch scheme {
	case "unix", "unixgram":
		address = "/sim/sock"
		pattern = scheme + "://" + address
	default:
		address = "sim:5140"
		pattern = scheme + "://" + address
	}
	network = scheme
	oneShot := e.Choose("gen", 4) == 0
	opts := []tailer.Option{tailer.LogPatterns([]string{pattern})}
	if oneShot {
		opts = append(opts, tailer.OneShot)
	}
	r := newTailRig(e, opts...)
	if !r.quiesce() {
		return
	}
	if !r.started || r.startErr != nil {
		e.Broken("tailer.New(%s): started=%v err=%v", pattern, r.started, r.startErr)
		return
	}
	nw := 1 + e.Choose("gen", 4)
	if oneShot && !dgram {
		// one-shot stream sockets take exactly one connection
		nw = 1
	}
	cancelEarly := e.Choose("gen", 3) == 0
	var ws []*c17Writer
	for i := 0; i < nw; i++ {
		w := &c17Writer{id: i}
		nl := e.Choose("gen", 7)
		var sb strings.Builder
		for k := 0; k < nl; k++ {
			l := fmt.Sprintf("w%d-%d", i, k)
			if e.Choose("gen", 5) == 0 {
				l += strings.Repeat("x", e.Choose("gen", 40))
			}
			w.lines = append(w.lines, l)
			sb.WriteString(l)
			if e.Choose("gen", 6) == 0 {
				sb.WriteString("\r")
			}
			sb.WriteString("\n")
		}
		if !dgram && e.Choose("gen", 3) == 0 {
			w.tail = fmt.Sprintf("w%d-tail", i)
			sb.WriteString(w.tail)
		}
		w.total = sb.String()
		ws = append(ws, w)
	}
	// writer tasks
	for _, w := range ws {
		w := w
		e.S.Go(fmt.Sprintf("writer%d", w.id), func() {
			defer func() { w.done = true }()
			if dgram {
				// whole newline-terminated lines per datagram, 1-3 lines each
				rest := w.total
				for rest != "" {
					k := 1 + e.Choose("io", 3)
					end := 0
					for j := 0; j < k; j++ {
						i := strings.IndexByte(rest[end:], '\n')
						if i < 0 {
							break
						}
						end += i + 1
					}
					if end == 0 {
						end = len(rest)
					}
					simrt.HYield()
					if !net.sendTo(network, address, []byte(rest[:end])) {
						w.refused = true
						return
					}
					w.sent += end
					rest = rest[end:]
				}
				return
			}
			simrt.HYield()
			c, err := net.dial(network, address)
			if err != nil {
				w.refused = true
				return
			}
			rest := w.total
			for rest != "" {
				n := 1 + e.Choose("io", len(rest))
				if e.Choose("io", 3) == 0 && n > 3 {
					n = 1 + e.Choose("io", 3)
				}
				simrt.HYield()
				if c.clientWrite([]byte(rest[:n])) != nil {
					return
				}
				w.sent += n
				rest = rest[n:]
			}
			simrt.HYield()
			c.clientClose()
		})
	}
	allDone := func() bool {
		for _, w := range ws {
			if !w.done {
				return false
			}
		}
		return true
	}
	cancelled := false
	if cancelEarly {
		// cancel at a seeded scheduler step while writers are active
		k := e.Choose("fault", 400)
		for i := 0; i < k && !e.S.OverBudget(); i++ {
			if !e.S.Step() {
				break
			}
		}
		r.cancel()
		cancelled = true
		e.Fault("cancel_while_writers_active")
		for _, w := range ws {
			if w.sent > 0 && !w.done {
				e.Probe("cancel_with_conn_open")
			}
		}
	}
	if !r.quiesce() {
		return
	}
	if !allDone() && !cancelled {
		e.Fail("writer-stuck", "a writer did not finish; live: %s", liveString(e))
		return
	}
	if !cancelled {
		// everything written, all connections closed: now stop the stream
		if !oneShot || dgram {
			r.cancel()
		}
	}
	if !r.quiesce() {
		return
	}
	r.sw.Tick()
	r.pw.Tick()
	if !r.quiesce() {
		return
	}
	desc := fmt.Sprintf("%s one-shot=%v cancel-early=%v writers=%d", pattern, oneShot, cancelled, nw)
	// a writer that is still blocked after cancellation (its connection was never accepted) is fine;
	// the stream itself must have ended
	if !r.consumed {
		if oneShot && dgram && !cancelled {
			// one-shot datagram streams end on the first empty datagram only; nothing promised here
		}
		e.Fail("not-closed", "%s: the stream's output did not end; live: %s", desc, liveString(e))
		return
	}
	for _, t := range e.S.Live() {
		if !strings.HasPrefix(t.Name, "writer") {
			e.Fail("goroutine-left", "%s: the stream ended but tasks remain: %s", desc, liveString(e))
			return
		}
	}
	// ---- per-connection framing ------------------------------------------
	got := map[int][]string{}
	for _, l := range r.got {
		var id, k int
		s := l.Line
		if n, _ := fmt.Sscanf(s, "w%d-", &id); n != 1 || id < 0 || id >= nw {
			// at a cancellation the bytes read so far of an unfinished line are flushed:
			// a fragment too short to carry a whole tag is then legitimate
			if cancelled && len(s) <= 3 && strings.HasPrefix("w0-w1-w2-w3-", s) || (cancelled && len(s) <= 3 && (strings.HasPrefix("w1-", s) || strings.HasPrefix("w2-", s) || strings.HasPrefix("w3-", s))) {
				e.Probe("partial_line_flushed_at_cancel")
				continue
			}
			e.Fail("spliced", "%s: delivered line %q does not start with a writer tag", desc, s)
			return
		}
		_ = k
		for j := 0; j < nw; j++ {
			if j != id && strings.Contains(s, fmt.Sprintf("w%d-", j)) {
				e.Fail("spliced", "%s: delivered line %q mixes data of connections %d and %d", desc, s, id, j)
				return
			}
		}
		if strings.Count(s, fmt.Sprintf("w%d-", id)) > 1 {
			e.Fail("merged", "%s: delivered line %q merges two lines of connection %d", desc, s, id)
			return
		}
		got[id] = append(got[id], s)
	}
	for _, w := range ws {
		want := append([]string{}, w.lines...)
		if w.tail != "" {
			want = append(want, w.tail)
		}
		g := got[w.id]
		complete := !cancelled && !w.refused
		if complete && w.sent != len(w.total) {
			e.Fail("writer-stuck", "%s: writer %d sent %d of %d bytes", desc, w.id, w.sent, len(w.total))
			return
		}
		for i, s := range g {
			if i >= len(want) {
				e.Fail("dup", "%s: connection %d delivered %d lines, only %d were written: %s", desc, w.id, len(g), len(want), quoteList(g))
				return
			}
			if s == want[i] {
				continue
			}
			// with an early cancel the last delivery may be the part of a line that had been read
			if cancelled && i == len(g)-1 && strings.HasPrefix(want[i]+"\r", s) {
				e.Probe("partial_line_flushed_at_cancel")
				continue
			}
			cls := "order"
			for _, x := range g[:i] {
				if x == s {
					cls = "dup"
				}
			}
			e.Fail(cls, "%s: connection %d delivered %s, wrote %s", desc, w.id, quoteList(g), quoteList(want))
			return
		}
		if complete && len(g) < len(want) {
			cls := "lost"
			if len(g) == len(want)-1 && w.tail != "" {
				cls = "tail"
			}
			e.Fail(cls, "%s: connection %d wrote %s but only %s was delivered", desc, w.id, quoteList(want), quoteList(g))
			return
		}
		if w.tail != "" && len(g) == len(want) {
			e.Probe("tail_delivered_at_close")
		}
	}
	e.R.Nontrivial = nw >= 2 || cancelled
	e.R.Key = fmt.Sprintf("%s|%x", desc, e.S.Signature())
	e.R.Sample = map[string]any{"pattern": pattern, "one_shot": oneShot, "writers": nw, "cancel_early": cancelled, "delivered": len(r.got)}
}
