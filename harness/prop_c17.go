//go:build go1.23

package verifsim

import (
	"fmt"
	"os"
	"path/filepath"
	"strings"
	"syscall"

	"github.com/google/mtail/internal/simrt"
	"github.com/google/mtail/internal/tailer"
)

// C17 — sockets deliver all bytes, never splice connections, then end.
//
// SUT: the real socketStream / dgramStream / cancel.go / LineReader reached
// through tailer.New with unix://, tcp://, unixgram:// and udp:// patterns.
// Transport: the in-memory simnet (net.Listen and net.ListenPacket are
// redirected by the instrumenter). 1-4 writer tasks connect, write a random
// chunking of uniquely tagged lines, optionally leave an unterminated tail,
// and close; the stream may be cancelled at a seeded step (including right
// after a connection was accepted and with bytes buffered but unread).

func init() { register("C17", propC17) }

type c17Writer struct {
	id      int
	lines   []string // full lines written (without newline)
	tail    string   // unterminated tail ("" none)
	sent    int      // bytes handed to the transport
	total   string   // the whole byte stream of this writer
	done    bool
	refused bool
}

func propC17(e *Env) {
	net := installSimNet(e)
	resetFifoGates()
	e.S.StmtPreempt = e.Choose("knob", 3) == 1
	schemes := []string{"unix", "tcp", "unixgram", "udp", "fifo", "stdin"}
	scheme := schemes[e.Choose("gen", len(schemes))]
	if scheme == "fifo" || scheme == "stdin" {
		c17Pipe(e, scheme == "stdin")
		return
	}
	dgram := scheme == "unixgram" || scheme == "udp"
	var pattern, network, address string
	switch scheme {
	case "unix", "unixgram":
		address = "/sim/sock"
		pattern = scheme + "://" + address
	default:
		address = "sim:5140"
		pattern = scheme + "://" + address
	}
	network = scheme
	oneShot := e.Choose("gen", 4) == 0
	opts := []tailer.Option{tailer.LogPatterns([]string{pattern})}
	if oneShot {
		opts = append(opts, tailer.OneShot)
	}
	r := newTailRig(e, opts...)
	if !r.quiesce() {
		return
	}
	if !r.started || r.startErr != nil {
		e.Broken("tailer.New(%s): started=%v err=%v", pattern, r.started, r.startErr)
		return
	}
	nw := 1 + e.Choose("gen", 4)
	if !oneShot && e.Choose("gen", 10) == 0 {
		nw = 0 // nobody ever connects: cancellation alone must end the stream
		e.Probe("no_writer_at_all")
	}
	if oneShot && !dgram {
		// one-shot stream sockets take exactly one connection
		nw = 1
	}
	cancelEarly := e.Choose("gen", 3) == 0
	bulk := dgram && e.Choose("gen", 8) == 0
	if bulk {
		cancelEarly = false
		if nw > 2 {
			nw = 2
		}
		e.Probe("datagram_bulk_over_128KiB")
	}
	var ws []*c17Writer
	for i := 0; i < nw; i++ {
		w := &c17Writer{id: i}
		nl := e.Choose("gen", 7)
		pad := 0
		if bulk {
			// enough datagram traffic to wrap the 128 KiB read buffer more than once
			nl = 120 + e.Choose("gen", 60)
			pad = 1200
		}
		var sb strings.Builder
		for k := 0; k < nl; k++ {
			l := fmt.Sprintf("w%d-%d", i, k)
			if pad > 0 {
				l += strings.Repeat("y", pad+e.Choose("gen", 300))
			}
			if e.Choose("gen", 5) == 0 {
				l += strings.Repeat("x", e.Choose("gen", 40))
			}
			w.lines = append(w.lines, l)
			sb.WriteString(l)
			if e.Choose("gen", 6) == 0 {
				sb.WriteString("\r")
			}
			sb.WriteString("\n")
		}
		if !dgram && e.Choose("gen", 3) == 0 {
			w.tail = fmt.Sprintf("w%d-tail", i)
			sb.WriteString(w.tail)
		}
		w.total = sb.String()
		ws = append(ws, w)
	}
	// writer tasks
	for _, w := range ws {
		w := w
		e.S.Go(fmt.Sprintf("writer%d", w.id), func() {
			defer func() { w.done = true }()
			if dgram {
				// whole newline-terminated lines per datagram, 1-3 lines each
				rest := w.total
				first := true
				for rest != "" {
					k := 1 + e.Choose("io", 3)
					if first && bulk && scheme == "unixgram" && w.id == 0 {
						// one large datagram (unix datagram sockets carry far more than UDP's 64 KiB): 50-95
						// lines of about 1.3 KiB, i.e. 65-125 KiB — below the 128 KiB a single read can take
						k = 50 + e.Choose("io", 40)
						e.Probe("unixgram_datagram_over_64KiB")
					}
					first = false
					end := 0
					for j := 0; j < k; j++ {
						i := strings.IndexByte(rest[end:], '\n')
						if i < 0 {
							break
						}
						end += i + 1
					}
					if end == 0 {
						end = len(rest)
					}
					simrt.HYield()
					if !oneShot && e.Choose("io", 6) == 0 {
						// an empty datagram carries no bytes: outside one-shot mode (where it means "end") it changes nothing
						net.sendTo(network, address, nil)
						e.Fault("empty_datagram")
						simrt.HYield()
					}
					if !net.sendTo(network, address, []byte(rest[:end])) {
						w.refused = true
						return
					}
					w.sent += end
					rest = rest[end:]
				}
				return
			}
			simrt.HYield()
			c, err := net.dial(network, address)
			if err != nil {
				w.refused = true
				return
			}
			rest := w.total
			for rest != "" {
				n := 1 + e.Choose("io", len(rest))
				if e.Choose("io", 3) == 0 && n > 3 {
					n = 1 + e.Choose("io", 3)
				}
				simrt.HYield()
				if c.clientWrite([]byte(rest[:n])) != nil {
					return
				}
				w.sent += n
				rest = rest[n:]
			}
			simrt.HYield()
			c.clientClose()
		})
	}
	allDone := func() bool {
		for _, w := range ws {
			if !w.done {
				return false
			}
		}
		return true
	}
	cancelled := false
	if cancelEarly {
		// cancel at a seeded scheduler step while writers are active
		k := e.Choose("fault", 400)
		for i := 0; i < k && !e.S.OverBudget(); i++ {
			if !e.S.Step() {
				break
			}
		}
		r.cancel()
		cancelled = true
		e.Fault("cancel_while_writers_active")
		for _, w := range ws {
			if w.sent > 0 && !w.done {
				e.Probe("cancel_with_conn_open")
			}
		}
	}
	if !r.quiesce() {
		return
	}
	if !allDone() && !cancelled {
		e.Fail("writer-stuck", "a writer did not finish; live: %s", liveString(e))
		return
	}
	if !cancelled {
		// An empty datagram sends a datagram stream to sleep until its next poll, with later datagrams
		// waiting in the socket: let polls happen, so that everything written has been read before the stop
		// (what is still unread in the socket at a cancellation is not promised).
		if dgram {
			for k, idle := 0, 0; k < 400 && idle < 2; k++ {
				before := len(r.got)
				r.sw.Tick()
				if !r.quiesce() {
					return
				}
				if len(r.got) == before {
					idle++
				} else {
					idle = 0
				}
			}
		}
		// everything written, all connections closed: now stop the stream
		if !oneShot || dgram {
			r.cancel()
		}
	}
	if !r.quiesce() {
		return
	}
	r.sw.Tick()
	r.pw.Tick()
	if !r.quiesce() {
		return
	}
	desc := fmt.Sprintf("%s one-shot=%v cancel-early=%v writers=%d", pattern, oneShot, cancelled, nw)
	if !cancelled && oneShot && !dgram {
		// a one-shot stream socket ends by itself when its single connection closes
		if !r.consumed {
			e.Fail("not-closed", "%s: the one-shot stream did not end after its connection closed; live: %s", desc, liveString(e))
			return
		}
		r.cancel() // releases the harness's own context (and mtail's timed wakers in that configuration)
		if !r.quiesce() {
			return
		}
	}
	// a writer that is still blocked after cancellation (its connection was never accepted) is fine;
	// the stream itself must have ended
	if !r.consumed {
		if oneShot && dgram && !cancelled {
			// one-shot datagram streams end on the first empty datagram only; nothing promised here
		}
		e.Fail("not-closed", "%s: the stream's output did not end; live: %s", desc, liveString(e))
		return
	}
	for _, t := range e.S.Live() {
		if !strings.HasPrefix(t.Name, "writer") {
			e.Fail("goroutine-left", "%s: the stream ended but tasks remain: %s", desc, liveString(e))
			return
		}
	}
	// ---- per-connection framing ------------------------------------------
	got := map[int][]string{}
	for _, l := range r.got {
		var id, k int
		s := l.Line
		if n, _ := fmt.Sscanf(s, "w%d-", &id); n != 1 || id < 0 || id >= nw {
			// at a cancellation the bytes read so far of an unfinished line are flushed:
			// a fragment too short to carry a whole tag is then legitimate
			if cancelled && len(s) <= 3 && strings.HasPrefix("w0-w1-w2-w3-", s) || (cancelled && len(s) <= 3 && (strings.HasPrefix("w1-", s) || strings.HasPrefix("w2-", s) || strings.HasPrefix("w3-", s))) {
				e.Probe("partial_line_flushed_at_cancel")
				continue
			}
			e.Fail("spliced", "%s: delivered line %q does not start with a writer tag", desc, s)
			return
		}
		_ = k
		for j := 0; j < nw; j++ {
			if j != id && strings.Contains(s, fmt.Sprintf("w%d-", j)) {
				e.Fail("spliced", "%s: delivered line %q mixes data of connections %d and %d", desc, s, id, j)
				return
			}
		}
		if strings.Count(s, fmt.Sprintf("w%d-", id)) > 1 {
			e.Fail("merged", "%s: delivered line %q merges two lines of connection %d", desc, s, id)
			return
		}
		got[id] = append(got[id], s)
	}
	for _, w := range ws {
		want := append([]string{}, w.lines...)
		if w.tail != "" {
			want = append(want, w.tail)
		}
		g := got[w.id]
		complete := !cancelled && !w.refused
		if complete && w.sent != len(w.total) {
			e.Fail("writer-stuck", "%s: writer %d sent %d of %d bytes", desc, w.id, w.sent, len(w.total))
			return
		}
		for i, s := range g {
			if i >= len(want) {
				e.Fail("dup", "%s: connection %d delivered %d lines, only %d were written: %s", desc, w.id, len(g), len(want), quoteList(g))
				return
			}
			if s == want[i] {
				continue
			}
			// with an early cancel the last delivery may be the part of a line that had been read
			if cancelled && i == len(g)-1 && strings.HasPrefix(want[i]+"\r", s) {
				e.Probe("partial_line_flushed_at_cancel")
				continue
			}
			cls := "order"
			for _, x := range g[:i] {
				if x == s {
					cls = "dup"
				}
			}
			e.Fail(cls, "%s: connection %d delivered %s, wrote %s", desc, w.id, quoteList(g), quoteList(want))
			return
		}
		if complete && len(g) < len(want) {
			cls := "lost"
			if len(g) == len(want)-1 && w.tail != "" {
				cls = "tail"
			}
			e.Fail(cls, "%s: connection %d wrote %s but only %s was delivered", desc, w.id, quoteList(want), quoteList(g))
			return
		}
		if w.tail != "" && len(g) == len(want) {
			e.Probe("tail_delivered_at_close")
		}
	}
	e.R.Nontrivial = nw >= 2 || cancelled
	e.R.Key = fmt.Sprintf("%s|%x", desc, e.S.Signature())
	e.R.Sample = map[string]any{"pattern": pattern, "one_shot": oneShot, "writers": nw, "cancel_early": cancelled, "delivered": len(r.got)}
}

// c17Pipe: a named pipe (or stdin backed by one) on the real kernel, behind the read gate.
func c17Pipe(e *Env, stdin bool) {
	path := filepath.Join(e.Dir, "pipe")
	// One run in three (not for stdin): the pipe matches two patterns and appears only after tailing began,
	// so two pattern pollers find it in the same poll and race to start its stream.
	twoPatterns := !stdin && e.Choose("gen", 3) == 0
	if !twoPatterns {
		if err := syscall.Mkfifo(path, 0o600); err != nil {
			e.Broken("mkfifo: %v", err)
			return
		}
	}
	pattern := path
	source := path
	if stdin {
		f, err := os.OpenFile(path, os.O_RDONLY|syscall.O_NONBLOCK, 0)
		if err != nil {
			e.Broken("open fifo for stdin: %v", err)
			return
		}
		old := os.Stdin
		os.Stdin = f
		defer func() { os.Stdin = old }()
		pattern, source = "-", "-"
	}
	g := newFifoGate(source)
	baseCount := logCountVar()
	patterns := []string{pattern}
	// One run in three (not for stdin): a second pipe that no writer ever opens is tailed as well; its
	// stream idles on the same waker as the busy one for the whole run and must end with it.
	if !stdin && e.Choose("gen", 3) == 0 {
		idle := filepath.Join(e.Dir, "idle-pipe")
		if err := syscall.Mkfifo(idle, 0o600); err != nil {
			e.Broken("mkfifo: %v", err)
			return
		}
		newFifoGate(idle)
		patterns = append(patterns, idle)
		baseCount++ // its stream is expected too
		e.Probe("idle_second_pipe")
	}
	if twoPatterns {
		patterns = append(patterns, filepath.Join(e.Dir, "pi*"))
		e.Probe("pipe_matches_two_patterns")
	}
	r := newTailRig(e, tailer.LogPatterns(patterns))
	if !r.quiesce() {
		return
	}
	if !r.started || r.startErr != nil {
		e.Broken("tailer.New(%s): started=%v err=%v", pattern, r.started, r.startErr)
		return
	}
	if twoPatterns {
		if err := syscall.Mkfifo(path, 0o600); err != nil {
			e.Broken("mkfifo: %v", err)
			return
		}
		r.pw.Tick()
		if !r.quiesce() {
			return
		}
		// two readers on one pipe would split its bytes between them: exactly one stream may have been started
		if n := logCountVar() - baseCount; n != 1 {
			e.Fail("pipe-read-by-two-streams", "named pipe matched by patterns %v, created after tailing began: after the pattern poll log_count went up by %d (one stream per pipe expected); live: %s", patterns, n, liveString(e))
			return
		}
	}
	// writer 0: arbitrary chunking, optional unterminated tail; writer 1 (optional, overlapping): whole lines per write
	nl := 1 + e.Choose("gen", 7)
	var w0 []string
	var sb strings.Builder
	for k := 0; k < nl; k++ {
		l := fmt.Sprintf("w0-%d", k)
		if e.Choose("gen", 5) == 0 {
			l += strings.Repeat("x", e.Choose("gen", 40))
		}
		w0 = append(w0, l)
		sb.WriteString(l)
		if e.Choose("gen", 6) == 0 {
			sb.WriteString("\r")
		}
		sb.WriteString("\n")
	}
	tail := ""
	second := e.Choose("gen", 3) == 0
	if !second && e.Choose("gen", 3) == 0 {
		tail = "w0-tail"
		sb.WriteString(tail)
	}
	total := sb.String()
	var w1 []string
	if second {
		for k := 0; k < 1+e.Choose("gen", 4); k++ {
			w1 = append(w1, fmt.Sprintf("w1-%d", k))
		}
	}
	cancelEarly := e.Choose("gen", 4) == 0
	done0, done1 := false, !second
	sent := 0
	var w1sent []string // what the second writer actually got into the pipe (it cannot open it once the reader has gone)
	// Both writing ends are opened before anything is written: a writer that connects after the last one
	// closed is a new session the reader may already have seen the end of (inherent to pipes, not promised).
	wr0, err0 := openFifoWriter(g, path)
	if err0 != nil {
		e.Broken("open fifo for writing: %v", err0)
		return
	}
	var wr1 *fifoWriter
	if second {
		var err1 error
		if wr1, err1 = openFifoWriter(g, path); err1 != nil {
			e.Broken("open fifo for writing: %v", err1)
			return
		}
	}
	e.S.Go("writer0", func() {
		defer func() { done0 = true }()
		simrt.HYield()
		w := wr0
		rest := total
		for rest != "" {
			n := 1 + e.Choose("io", len(rest))
			if second {
				// with a second writer on the same pipe only whole lines are written at once
				n = strings.IndexByte(rest, '\n') + 1
			}
			simrt.HYield()
			if _, err := w.Write([]byte(rest[:n])); err != nil {
				break
			}
			sent += n
			rest = rest[n:]
		}
		simrt.HYield()
		w.Close()
	})
	if second {
		e.S.Go("writer1", func() {
			defer func() { done1 = true }()
			simrt.HYield()
			w := wr1
			for _, l := range w1 {
				simrt.HYield()
				if _, err := w.Write([]byte(l + "\n")); err != nil {
					break
				}
				w1sent = append(w1sent, l)
			}
			simrt.HYield()
			w.Close()
		})
	}
	cancelled := false
	cancelAt := -1
	if cancelEarly {
		cancelAt = e.Choose("fault", 300)
	}
	for i := 0; i < 2000000 && !e.S.OverBudget(); i++ {
		if i == cancelAt {
			r.cancel()
			cancelled = true
			e.Fault("cancel_while_writers_active")
		}
		if !e.S.Step() {
			if done0 && done1 {
				break
			}
			r.sw.Tick()
			continue
		}
		if e.Choose("env", 20) == 0 {
			r.sw.Tick()
		}
	}
	// let the stream drain what was written
	for k := 0; k < 4; k++ {
		r.sw.Tick()
		if !r.quiesce() {
			return
		}
	}
	kind := "named pipe"
	if stdin {
		kind = "stdin"
	}
	desc := fmt.Sprintf("%s, writers=%d, cancel-early=%v", kind, map[bool]int{false: 1, true: 2}[second], cancelled)
	var got0, got1 []string
	for _, l := range r.got {
		switch {
		case strings.HasPrefix(l.Line, "w1-") && !strings.Contains(l.Line, "w0-"):
			got1 = append(got1, l.Line)
		case strings.HasPrefix(l.Line, "w0-") && !strings.Contains(l.Line, "w1-"):
			got0 = append(got0, l.Line)
		default:
			if cancelled && len(l.Line) <= 3 {
				continue
			}
			e.Fail("spliced", "%s: delivered line %q", desc, l.Line)
			return
		}
	}
	// what writer 0 actually got into the pipe (it cannot open the pipe once the reader has gone,
	// which happens when the other writer opened, wrote and closed first)
	want0 := c15Expected(total[:sent])
	if cancelled {
		want0 = append([]string{}, w0...)
		if tail != "" {
			want0 = append(want0, tail)
		}
	}
	if sent < len(total) && !cancelled {
		e.Probe("writer_found_pipe_without_reader")
	}
	checkSeq := func(name string, got, want []string) bool {
		for i, s := range got {
			if i >= len(want) {
				e.Fail("dup", "%s: %s delivered %s, wrote %s", desc, name, quoteList(got), quoteList(want))
				return false
			}
			if s != want[i] && !(cancelled && i == len(got)-1 && strings.HasPrefix(want[i]+"\r", s)) {
				cls := "order"
				for _, x := range got[:i] {
					if x == s {
						cls = "dup"
					}
				}
				e.Fail(cls, "%s: %s delivered %s, wrote %s", desc, name, quoteList(got), quoteList(want))
				return false
			}
		}
		if !cancelled && len(got) < len(want) {
			cls := "lost"
			if len(got) == len(want)-1 && tail != "" && name == "writer 0" {
				cls = "tail"
			}
			e.Fail(cls, "%s: %s wrote %s but only %s was delivered after the writers closed", desc, name, quoteList(want), quoteList(got))
			return false
		}
		return true
	}
	if !checkSeq("writer 0", got0, want0) || !checkSeq("writer 1", got1, w1sent) {
		return
	}
	if tail != "" && !cancelled && sent == len(total) {
		e.Probe("tail_delivered_at_close")
	}
	e.Probe("pipe_run")
	if !cancelled {
		r.cancel()
	}
	if !r.quiesce() {
		return
	}
	r.sw.Tick()
	r.pw.Tick()
	if !r.quiesce() {
		return
	}
	if !r.consumed {
		e.Fail("not-closed", "%s: the tailer's output did not end after cancellation; live: %s", desc, liveString(e))
		return
	}
	for _, t := range e.S.Live() {
		if !strings.HasPrefix(t.Name, "writer") {
			e.Fail("goroutine-left", "%s: tasks remain after shutdown: %s", desc, liveString(e))
			return
		}
	}
	e.R.Nontrivial = true
	e.R.Key = fmt.Sprintf("%s|%x", desc, e.S.Signature())
	e.R.Sample = map[string]any{"pattern": kind, "writers": map[bool]int{false: 1, true: 2}[second], "cancel_early": cancelled, "delivered": len(r.got)}
}
