//go:build go1.23

package verifsim

import (
	"errors"
	"fmt"
	"io"
	"net"
	"os"
	"path/filepath"
	"strings"
	"testing"
	"time"
)

// TestSimnetConformance (self-test 6.3): scripted scenarios are executed
// against real loopback sockets and against the in-memory simnet; every
// observable mtail's stream code uses (bytes, EOF, deadline errors, close
// errors, what Accept does when the listener closes) must agree.

type connPair struct {
	server net.Conn
	write  func([]byte)
	close  func()
	lis    net.Listener
}

func errClass(err error) string {
	switch {
	case err == nil:
		return "nil"
	case errors.Is(err, io.EOF):
		return "EOF"
	case os.IsTimeout(err):
		return "timeout"
	case strings.Contains(err.Error(), "use of closed network connection"):
		return "closed"
	}
	return "other:" + err.Error()
}

func streamScript(t *testing.T, name string, mk func() connPair) []string {
	var obs []string
	rec := func(f string, a ...any) { obs = append(obs, fmt.Sprintf(f, a...)) }
	read := func(c net.Conn, size int) {
		b := make([]byte, size)
		n, err := c.Read(b)
		rec("read(%d) -> %q %s", size, b[:n], errClass(err))
	}
	// 1. data then EOF after the peer closed and the buffer was drained
	p := mk()
	p.write([]byte("abc"))
	time.Sleep(20 * time.Millisecond)
	read(p.server, 16)
	p.write([]byte("defgh"))
	time.Sleep(20 * time.Millisecond)
	read(p.server, 2) // short buffer
	p.close()
	time.Sleep(20 * time.Millisecond)
	read(p.server, 16)
	read(p.server, 16)
	read(p.server, 16)
	p.server.Close()
	p.lis.Close()
	// 2. a past deadline fails the read even with data buffered
	p = mk()
	p.write([]byte("pending"))
	time.Sleep(20 * time.Millisecond)
	rec("setdeadline -> %s", errClass(p.server.SetReadDeadline(time.Now())))
	read(p.server, 16)
	read(p.server, 16)
	rec("close -> %s", errClass(p.server.Close()))
	read(p.server, 16)
	rec("close again -> %s", errClass(p.server.Close()))
	p.lis.Close()
	// 3. a blocked read is released by a deadline set from elsewhere
	p = mk()
	done := make(chan string)
	go func() {
		b := make([]byte, 8)
		n, err := p.server.Read(b)
		done <- fmt.Sprintf("blocked read -> %q %s", b[:n], errClass(err))
	}()
	time.Sleep(30 * time.Millisecond)
	p.server.SetReadDeadline(time.Now())
	rec("%s", <-done)
	// 4. a blocked read is released by Close
	p.server.SetReadDeadline(time.Time{})
	go func() {
		b := make([]byte, 8)
		n, err := p.server.Read(b)
		done <- fmt.Sprintf("blocked read -> %q %s", b[:n], errClass(err))
	}()
	time.Sleep(30 * time.Millisecond)
	p.server.Close()
	rec("%s", <-done)
	// 6. writes to a peer that never reads are accepted for a while, then block, and fail at the write deadline
	q := mk()
	q.server.SetWriteDeadline(time.Now().Add(300 * time.Millisecond))
	total := 0
	var werr error
	chunk := make([]byte, 64<<10)
	for i := 0; i < 4096 && werr == nil; i++ {
		var k int
		k, werr = q.server.Write(chunk)
		total += k
	}
	rec("write until blocked, with a write deadline -> some bytes accepted: %v, then %s", total > 0, errClass(werr))
	_, werr = q.server.Write(chunk[:1])
	rec("write after the deadline -> %s", errClass(werr))
	q.server.Close()
	_, werr = q.server.Write(chunk[:1])
	rec("write after close -> %s", errClass(werr))
	q.lis.Close()
	// 5. Accept is released by closing the listener
	go func() {
		_, err := p.lis.Accept()
		done <- fmt.Sprintf("blocked accept -> %s", errClass(err))
	}()
	time.Sleep(30 * time.Millisecond)
	rec("listener close -> %s", errClass(p.lis.Close()))
	rec("%s", <-done)
	_, err := p.lis.Accept()
	rec("accept after close -> %s", errClass(err))
	return obs
}

func packetScript(t *testing.T, mk func() (net.PacketConn, func([]byte))) []string {
	var obs []string
	rec := func(f string, a ...any) { obs = append(obs, fmt.Sprintf(f, a...)) }
	c, send := mk()
	readFrom := func(size int) {
		b := make([]byte, size)
		n, _, err := c.ReadFrom(b)
		rec("readfrom(%d) -> %q %s", size, b[:n], errClass(err))
	}
	send([]byte("one\n"))
	send([]byte{}) // an empty datagram is a datagram: a 0-byte read without an error
	send([]byte("two\nthree\n"))
	send([]byte("a-long-datagram\n"))
	time.Sleep(30 * time.Millisecond)
	readFrom(64)
	readFrom(64)
	readFrom(64)
	readFrom(6) // truncated
	c.SetReadDeadline(time.Now())
	readFrom(64)
	send([]byte("late\n"))
	time.Sleep(30 * time.Millisecond)
	readFrom(64) // deadline still in the past: fails even with a datagram queued
	done := make(chan string)
	c.SetReadDeadline(time.Time{})
	readFrom(64)
	go func() {
		b := make([]byte, 8)
		n, _, err := c.ReadFrom(b)
		done <- fmt.Sprintf("blocked readfrom -> %q %s", b[:n], errClass(err))
	}()
	time.Sleep(30 * time.Millisecond)
	rec("close -> %s", errClass(c.Close()))
	rec("%s", <-done)
	readFrom(8)
	return obs
}

func TestSimnetConformance(t *testing.T) {
	if os.Getenv("VERIF_CONFORMANCE") == "" {
		t.Skip("set VERIF_CONFORMANCE=1")
	}
	dir := t.TempDir()
	n := 0
	realStream := func(network string) func() connPair {
		return func() connPair {
			n++
			addr := "127.0.0.1:0"
			if network == "unix" {
				addr = filepath.Join(dir, fmt.Sprintf("s%d.sock", n))
			}
			l, err := net.Listen(network, addr)
			if err != nil {
				t.Fatalf("listen: %v", err)
			}
			acc := make(chan net.Conn, 1)
			go func() { c, _ := l.Accept(); acc <- c }()
			cl, err := net.Dial(network, l.Addr().String())
			if err != nil {
				t.Fatalf("dial: %v", err)
			}
			return connPair{server: <-acc, write: func(b []byte) { cl.Write(b) }, close: func() { cl.Close() }, lis: l}
		}
	}
	sn := &simNet{lis: map[string]*simListener{}, pcs: map[string]*simPacketConn{}, outCap: 4096}
	simStream := func() connPair {
		n++
		addr := fmt.Sprintf("sim:%d", n)
		l, _ := sn.listen("tcp", addr)
		acc := make(chan net.Conn, 1)
		go func() { c, _ := l.Accept(); acc <- c }()
		cl, err := sn.dial("tcp", addr)
		if err != nil {
			t.Fatalf("sim dial: %v", err)
		}
		return connPair{server: <-acc, write: func(b []byte) { cl.clientWrite(b) }, close: cl.clientClose, lis: l}
	}
	want := streamScript(t, "sim", simStream)
	for _, network := range []string{"tcp", "unix"} {
		got := streamScript(t, network, realStream(network))
		if strings.Join(got, "\n") != strings.Join(want, "\n") {
			t.Errorf("stream sockets: real %s and simnet disagree\n--- real\n%s\n--- simnet\n%s", network, strings.Join(got, "\n"), strings.Join(want, "\n"))
		}
	}
	simPacket := func() (net.PacketConn, func([]byte)) {
		n++
		addr := fmt.Sprintf("sim:%d", n)
		c, _ := sn.listenPacket("udp", addr)
		return c, func(b []byte) { sn.sendTo("udp", addr, b) }
	}
	wantP := packetScript(t, simPacket)
	for _, network := range []string{"udp", "unixgram"} {
		network := network
		got := packetScript(t, func() (net.PacketConn, func([]byte)) {
			n++
			addr := "127.0.0.1:0"
			if network == "unixgram" {
				addr = filepath.Join(dir, fmt.Sprintf("d%d.sock", n))
			}
			c, err := net.ListenPacket(network, addr)
			if err != nil {
				t.Fatalf("listenpacket: %v", err)
			}
			cl, err := net.Dial(network, c.LocalAddr().String())
			if err != nil {
				t.Fatalf("dial: %v", err)
			}
			return c, func(b []byte) { cl.Write(b) }
		})
		if strings.Join(got, "\n") != strings.Join(wantP, "\n") {
			t.Errorf("datagram sockets: real %s and simnet disagree\n--- real\n%s\n--- simnet\n%s", network, strings.Join(got, "\n"), strings.Join(wantP, "\n"))
		}
	}
	t.Logf("stream script (%d observations):\n%s", len(want), strings.Join(want, "\n"))
	t.Logf("datagram script (%d observations):\n%s", len(wantP), strings.Join(wantP, "\n"))
}
