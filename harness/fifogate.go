//go:build go1.23

package verifsim

import (
	"io"
	"os"
	"sync"
	"syscall"
	"time"

	"github.com/google/mtail/internal/simrt"
)

// The FIFO seam. mtail reads named pipes and stdin through a real *os.File of
// a real kernel FIFO opened O_NONBLOCK. A read that finds the pipe empty while
// a writer is connected would park the goroutine in the network poller, which
// synctest does not regard as durably blocked: quiescence detection would
// hang. The instrumenter therefore routes the reader handed to NewLineReader
// (and the object handed to SetReadDeadlineOnDone) through simrt's hooks, and
// this gate — blocking on a bubble channel, i.e. durably — lets a read through
// to the kernel only when the simulator knows it cannot block there:
// bytes are pending, no writer is connected (EOF), or a read deadline has been
// set (the fake "now" lies in the real past, so the read fails at once).
//
// The harness's writers go through fifoWriter so that the gate knows about
// pending bytes and connected writers. Everything else is the kernel's.

type fifoGate struct {
	mu       sync.Mutex
	path     string
	pending  int
	writers  int
	deadline bool
	wake     chan struct{}
	file     *os.File
	reads    int
}

var (
	fifoGatesMu sync.Mutex
	fifoGates   = map[string]*fifoGate{} // by source name (path, or "-")
)

func resetFifoGates() {
	fifoGatesMu.Lock()
	fifoGates = map[string]*fifoGate{}
	fifoGatesMu.Unlock()
	simrt.ReaderHook = fifoReaderHook
	simrt.DeadlinerHook = fifoDeadlinerHook
}

func newFifoGate(source string) *fifoGate {
	g := &fifoGate{path: source, wake: make(chan struct{})}
	fifoGatesMu.Lock()
	fifoGates[source] = g
	fifoGatesMu.Unlock()
	return g
}

func (g *fifoGate) broadcast() {
	close(g.wake)
	g.wake = make(chan struct{})
}

type gatedReader struct {
	g *fifoGate
	f io.Reader
}

func fifoReaderHook(source string, r io.Reader) io.Reader {
	fifoGatesMu.Lock()
	g := fifoGates[source]
	fifoGatesMu.Unlock()
	if g == nil {
		if e := shortReadEnv; e != nil {
			if f, ok := r.(*os.File); ok {
				if fi, err := f.Stat(); err == nil && fi.Mode().IsRegular() {
					return &shortReader{e: e, r: r}
				}
			}
		}
		return r
	}
	if f, ok := r.(*os.File); ok {
		g.mu.Lock()
		g.file = f
		g.mu.Unlock()
	}
	return &gatedReader{g: g, f: r}
}

func (r *gatedReader) Read(p []byte) (int, error) {
	g := r.g
	for {
		g.mu.Lock()
		if g.pending > 0 || g.writers == 0 || g.deadline {
			g.reads++
			g.mu.Unlock()
			break
		}
		w := g.wake
		g.mu.Unlock()
		<-w
	}
	n, err := r.f.Read(p)
	if n > 0 {
		g.mu.Lock()
		g.pending -= n
		g.mu.Unlock()
	}
	return n, err
}

type gatedDeadliner struct {
	g *fifoGate
	d interface{ SetReadDeadline(time.Time) error }
}

func (d *gatedDeadliner) SetReadDeadline(t time.Time) error {
	err := d.d.SetReadDeadline(t)
	d.g.mu.Lock()
	d.g.deadline = true
	d.g.broadcast()
	d.g.mu.Unlock()
	return err
}

func fifoDeadlinerHook(d any) any {
	f, ok := d.(*os.File)
	if !ok {
		return d
	}
	fifoGatesMu.Lock()
	defer fifoGatesMu.Unlock()
	for _, g := range fifoGates {
		g.mu.Lock()
		same := g.file == f
		g.mu.Unlock()
		if same {
			return &gatedDeadliner{g: g, d: f}
		}
	}
	return d
}

// fifoWriter is the harness's writing end of a real FIFO.
type fifoWriter struct {
	g *fifoGate
	f *os.File
}

// openFifoWriter opens the pipe for writing without blocking (the reader — mtail — must already have it open).
func openFifoWriter(g *fifoGate, path string) (*fifoWriter, error) {
	f, err := os.OpenFile(path, os.O_WRONLY|syscall.O_NONBLOCK, 0)
	if err != nil {
		return nil, err
	}
	g.mu.Lock()
	g.writers++
	g.broadcast()
	g.mu.Unlock()
	return &fifoWriter{g: g, f: f}, nil
}

func (w *fifoWriter) Write(b []byte) (int, error) {
	n, err := w.f.Write(b)
	w.g.mu.Lock()
	w.g.pending += n
	w.g.broadcast()
	w.g.mu.Unlock()
	return n, err
}

func (w *fifoWriter) Close() error {
	err := w.f.Close()
	w.g.mu.Lock()
	w.g.writers--
	w.g.broadcast()
	w.g.mu.Unlock()
	return err
}

// ---- short reads on regular files -------------------------------------------
//
// read(2) on a regular file may return fewer bytes than asked for, and an
// io.Reader always may. In the runs that enable it, the reader a file stream
// hands to its LineReader returns, for one read in three, only the first
// 1..4096 bytes of what the kernel would have returned (the buffer passed down
// is shortened; nothing is read and thrown away). Drawn from the "io" stream,
// inside scheduled tasks: replayable.

var shortReadEnv *Env // set per run by enableShortReads; cleared at the start of every run

type shortReader struct {
	e *Env
	r io.Reader
}

func (s *shortReader) Read(p []byte) (int, error) {
	if len(p) > 1 && s.e.Choose("io", 3) == 0 {
		n := []int{1, 2, 3, 7, 100, 4096}[s.e.Choose("io", 6)]
		if n < len(p) {
			p = p[:n]
			s.e.Fault("short_read")
		}
	}
	return s.r.Read(p)
}

// enableShortReads turns short reads on for this run with probability 1/4.
func enableShortReads(e *Env) {
	if simrt.ReaderHook == nil {
		resetFifoGates()
	}
	if e.Choose("knob", 4) == 0 {
		shortReadEnv = e
		e.Probe("short_reads_enabled")
	}
}
