//go:build go1.23

package verifsim

import (
	"context"
	"fmt"
	"sort"
	"strings"
	"time"

	"github.com/google/mtail/internal/metrics"
	"github.com/google/mtail/internal/metrics/datum"
)

// C10 — garbage collection removes exactly the expired and over-limit data.
//
// SUT: the real Store, Metric, Store.Gc and StartGcLoop's ticker goroutine
// under the bubble's fake clock. Stores are built from generated histories
// with explicit timestamps placed just below / at / just above each expiry
// relative to the GC instant T, and limits around the current size. GC runs
// either as a direct call from a task at a known T, or through the real
// ticker loop while the controller advances time.

func init() { register("C10", propC10) }

type gcDatum struct {
	labels []string
	val    string
	ts     int64
	expiry time.Duration
	d      datum.Datum
}

type gcMetric struct {
	m     *metrics.Metric
	name  string
	limit int
	data  []*gcDatum
	desc  string
}

func gcSnapshot(m *metrics.Metric) []*gcDatum {
	var out []*gcDatum
	m.RLock()
	defer m.RUnlock()
	for _, lv := range m.LabelValues {
		out = append(out, &gcDatum{labels: append([]string{}, lv.Labels...), val: lv.Value.ValueString(), ts: lv.Value.TimeUTC().UnixNano(), expiry: lv.Expiry, d: lv.Value})
	}
	return out
}

func gcMetaString(m *metrics.Metric) string {
	return fmt.Sprintf("%s|%s|%v|%v|%v|%v|%d|%s|%v", m.Name, m.Program, m.Kind, m.Type, m.Hidden, m.Keys, m.Limit, m.Source, m.Buckets)
}

// gcJudge applies the statement to one metric: before -> after at instant T.
func gcJudge(e *Env, gm *gcMetric, after []*gcDatum, T time.Time, ctxt string) {
	before := gm.data
	kept := map[datum.Datum]bool{}
	for _, a := range after {
		kept[a.d] = true
	}
	expired := func(d *gcDatum) bool {
		return d.expiry > 0 && T.Sub(time.Unix(0, d.ts)) > d.expiry
	}
	// nothing may appear, and what is kept must be unchanged and in order
	bi := 0
	for _, a := range after {
		found := false
		for bi < len(before) {
			b := before[bi]
			bi++
			if b.d == a.d {
				found = true
				if strings.Join(b.labels, "\x00") != strings.Join(a.labels, "\x00") || b.val != a.val || b.ts != a.ts || b.expiry != a.expiry {
					e.Fail("collateral-change", "%s: metric %s: kept datum %q changed: before (v=%s t=%d exp=%v) after (v=%s t=%d exp=%v)", ctxt, gm.desc, a.labels, b.val, b.ts, b.expiry, a.val, a.ts, a.expiry)
					return
				}
				break
			}
		}
		if !found {
			e.Fail("collateral-change", "%s: metric %s: datum %q after GC was not there before, or the order of kept data changed", ctxt, gm.desc, a.labels)
			return
		}
	}
	var removed, removedLive []*gcDatum
	for _, b := range before {
		if !kept[b.d] {
			removed = append(removed, b)
			if !expired(b) {
				removedLive = append(removedLive, b)
			}
		}
	}
	need := 0
	if gm.limit > 0 && len(before) > gm.limit {
		need = len(before) - gm.limit
		e.Probe("over_limit")
	}
	if need == 0 {
		if len(removedLive) > 0 {
			e.Fail("removed-live", "%s: metric %s: %q was removed although it is not expired at T (t=%v expiry=%v, T-t=%v) and the metric is within its limit (%d of %d)",
				ctxt, gm.desc, removedLive[0].labels, time.Unix(0, removedLive[0].ts).UTC(), removedLive[0].expiry, T.Sub(time.Unix(0, removedLive[0].ts)), len(before), gm.limit)
			return
		}
		for _, a := range after {
			if expired(a) {
				e.Fail("kept-expired", "%s: metric %s: %q is still there although T-t=%v exceeds its expiry %v", ctxt, gm.desc, a.labels, T.Sub(time.Unix(0, a.ts)), a.expiry)
				return
			}
		}
		return
	}
	// limit phase: `need` oldest data go (ties may break either way)
	if len(before)-len(removed) > gm.limit {
		e.Fail("limit-exceeded", "%s: metric %s: holds %d data after GC, limit is %d (held %d before)", ctxt, gm.desc, len(after), gm.limit, len(before))
		return
	}
	sorted := append([]*gcDatum{}, before...)
	sort.SliceStable(sorted, func(i, j int) bool { return sorted[i].ts < sorted[j].ts })
	tstar := sorted[need-1].ts
	if len(removedLive) > need {
		e.Fail("removed-live", "%s: metric %s: %d non-expired data were removed but only %d had to go for the limit %d", ctxt, gm.desc, len(removedLive), need, gm.limit)
		return
	}
	nBelow := 0
	for _, b := range before {
		if b.ts < tstar {
			nBelow++
			if kept[b.d] {
				// an older datum was kept: then some newer one must have been removed for the limit
				e.Fail("limit-removed-newer", "%s: metric %s: %q (t=%d) was kept although %d data had to go for the limit and it is among the oldest (threshold t=%d)", ctxt, gm.desc, b.labels, b.ts, need, tstar)
				return
			}
		}
	}
	tieLive := 0
	for _, b := range removedLive {
		if b.ts > tstar {
			e.Fail("limit-removed-newer", "%s: metric %s: non-expired %q (t=%d) was removed although it is newer than the %d oldest (threshold t=%d)", ctxt, gm.desc, b.labels, b.ts, need, tstar)
			return
		}
		if b.ts == tstar {
			tieLive++
		}
	}
	if nBelow+tieLive > need {
		e.Fail("removed-live", "%s: metric %s: more non-expired data removed than the limit requires", ctxt, gm.desc)
		return
	}
	// expiry phase on what the limit phase left
	for _, a := range after {
		if expired(a) {
			e.Fail("kept-expired", "%s: metric %s: %q is still there although T-t=%v exceeds its expiry %v", ctxt, gm.desc, a.labels, T.Sub(time.Unix(0, a.ts)), a.expiry)
			return
		}
	}
}

func propC10(e *Env) {
	store := metrics.NewStore()
	nm := 1 + e.Choose("gen", 3)
	// The GC instant: base + offset; data timestamps are placed relative to it.
	gcDelay := time.Duration(1+e.Choose("gen", 48)) * time.Hour
	T := time.Now().Add(gcDelay)
	var ms []*gcMetric
	var sample []string
	for i := 0; i < nm; i++ {
		arity := 1 + e.Choose("gen", 2)
		keys := []string{"a", "b"}[:arity]
		// every value type: what GC looks at is the time of the last update, whatever the datum holds
		kt := []struct {
			k metrics.Kind
			t metrics.Type
		}{{metrics.Counter, metrics.Int}, {metrics.Gauge, metrics.Float}, {metrics.Text, metrics.String}, {metrics.Histogram, metrics.Buckets}, {metrics.Counter, metrics.Int}}[e.Choose("gen", 5)]
		m := metrics.NewMetric(fmt.Sprintf("m%d", i), "prog", kt.k, kt.t, keys...)
		if kt.t == metrics.Buckets {
			m.Buckets = []datum.Range{{Min: 0, Max: 1}, {Min: 1, Max: 2}, {Min: 2, Max: 4}}
		}
		intended := map[string]int64{}
		intendedExp := map[string]time.Duration{}
		nd := e.Choose("gen", 7)
		switch e.Choose("gen", 4) {
		case 0:
		case 1:
			m.Limit = nd // at the limit
		case 2:
			if nd > 1 {
				m.Limit = nd - 1 - e.Choose("gen", nd-1) // over the limit
				if m.Limit == 0 {
					m.Limit = 1
				}
			}
		case 3:
			m.Limit = nd + 1
		}
		if err := store.Add(m); err != nil {
			e.Broken("store.Add: %v", err)
			return
		}
		gm := &gcMetric{m: m, name: m.Name, limit: m.Limit}
		for j := 0; j < nd; j++ {
			labels := []string{fmt.Sprintf("x%d", j), "y"}[:arity]
			d, err := m.GetDatum(labels...)
			if err != nil {
				e.Broken("GetDatum: %v", err)
				return
			}
			exp := time.Duration(0)
			if e.Choose("gen", 3) > 0 {
				exp = time.Duration(1+e.Choose("gen", 4)) * 30 * time.Minute
			}
			// age relative to T: around the expiry boundary, far past, or in the future of T
			var age time.Duration
			base := exp
			if base == 0 {
				base = time.Hour
			}
			switch e.Choose("gen", 7) {
			case 0:
				age = base - time.Nanosecond
			case 1:
				age = base
				e.Probe("age_exactly_expiry")
			case 2:
				age = base + time.Nanosecond
			case 3:
				age = base + time.Duration(e.Choose("gen", 100))*time.Hour
			case 4:
				age = -time.Duration(1+e.Choose("gen", 5)) * time.Minute // updated "after" T
				e.Probe("timestamp_in_future_of_T")
			case 5:
				age = time.Duration(e.Choose("gen", 4)) * time.Hour // likely ties between data
			default:
				age = time.Duration(e.Choose("gen", 1000000)) * time.Millisecond
			}
			ts := T.Add(-age)
			update := func(at time.Time) {
				v := int64(10*i + j)
				switch kt.t {
				case metrics.Int:
					datum.SetInt(d, v, at)
				case metrics.Float:
					datum.SetFloat(d, float64(v)/2, at)
				case metrics.String:
					datum.SetString(d, fmt.Sprintf("s%d", v), at)
				case metrics.Buckets:
					datum.Observe(d, float64(v%3), at)
				}
			}
			if e.Choose("gen", 3) == 0 {
				// an earlier update with the same value: the later one, at ts, is what counts
				update(ts.Add(-time.Duration(1+e.Choose("gen", 200)) * time.Hour))
				e.Probe("refreshed_with_same_value")
			}
			update(ts)
			intended[strings.Join(labels, "\x00")] = ts.UnixNano()
			if exp > 0 {
				if e.Choose("gen", 3) == 0 {
					// marked before with another delay: the latest mark is the one that counts
					other := time.Duration(1+e.Choose("gen", 300)) * time.Hour
					if err := m.ExpireDatum(other, labels...); err != nil {
						e.Broken("ExpireDatum: %v", err)
						return
					}
					e.Probe("marked_twice")
				}
				if err := m.ExpireDatum(exp, labels...); err != nil {
					e.Broken("ExpireDatum: %v", err)
					return
				}
			}
			intendedExp[strings.Join(labels, "\x00")] = exp
		}
		gm.data = gcSnapshot(m)
		for _, d := range gm.data {
			// the model goes by the instant of the last update as the harness made it
			d.ts = intended[strings.Join(d.labels, "\x00")]
			d.expiry = intendedExp[strings.Join(d.labels, "\x00")]
		}
		var ds []string
		for _, d := range gm.data {
			ds = append(ds, fmt.Sprintf("%s:age=%v,exp=%v", strings.Join(d.labels, "/"), T.Sub(time.Unix(0, d.ts)), d.expiry))
		}
		gm.desc = fmt.Sprintf("%s(limit=%d)[%s]", m.Name, m.Limit, strings.Join(ds, " "))
		sample = append(sample, gm.desc)
		ms = append(ms, gm)
	}
	metaBefore := map[string]string{}
	for _, gm := range ms {
		metaBefore[gm.name] = gcMetaString(gm.m)
	}
	mode := e.Choose("gen", 2)
	ctxt := "direct Gc() at T"
	if mode == 0 {
		e.S.Advance(gcDelay)
		var gerr error
		done := false
		e.S.Go("gc", func() { gerr = store.Gc(); done = true })
		if !e.S.Run(200000) || !done {
			e.Fail("gc-stuck", "Gc did not return; live: %s", liveString(e))
			return
		}
		if gerr != nil {
			e.Fail("gc-error", "Gc returned %v", gerr)
			return
		}
	} else {
		// the real ticker loop: interval divides gcDelay so that a tick lands exactly at T
		ctxt = "GC ticker loop, judged at T"
		ctx, cancel := context.WithCancel(context.Background())
		iv := gcDelay
		if k := e.Choose("gen", 3); k > 0 {
			iv = gcDelay / time.Duration(k+1)
		}
		// Earlier ticks run GC at instants before T: judge every pass against
		// the state it found, at the instant it ran.
		e.S.Go("start", func() { store.StartGcLoop(ctx, iv) })
		e.S.Run(1000)
		for time.Until(T) > 0 {
			step := iv
			if time.Until(T) < step {
				step = time.Until(T)
			}
			e.S.Advance(step)
			if !e.S.Run(200000) {
				e.Fail("gc-stuck", "GC loop did not become quiescent; live: %s", liveString(e))
				cancel()
				return
			}
			now := time.Now()
			for _, gm := range ms {
				after := gcSnapshot(gm.m)
				gcJudge(e, gm, after, now, fmt.Sprintf("GC tick at T-%v", T.Sub(now)))
				gm.data = after
				if e.Failed() {
					cancel()
					return
				}
			}
			e.Probe("gc_tick")
		}
		cancel()
		e.S.Run(10000)
		if live := e.S.Live(); len(live) > 0 {
			e.Fail("goroutine-left", "GC loop still alive after cancellation: %s", liveString(e))
			return
		}
	}
	now := time.Now()
	if !now.Equal(T) {
		e.Broken("clock is %v, expected T=%v", now, T)
		return
	}
	removedAny := false
	for _, gm := range ms {
		after := gcSnapshot(gm.m)
		if len(after) != len(gm.data) {
			removedAny = true
		}
		if mode == 0 {
			gcJudge(e, gm, after, T, ctxt)
		}
		if gcMetaString(gm.m) != metaBefore[gm.name] {
			e.Fail("collateral-change", "metric %s descriptor changed: %s -> %s", gm.name, metaBefore[gm.name], gcMetaString(gm.m))
		}
	}
	// the set of metrics is unchanged
	n := 0
	store.Range(func(*metrics.Metric) error { n++; return nil })
	if n != len(ms) {
		e.Fail("collateral-change", "store holds %d metrics after GC, %d before", n, len(ms))
	}
	e.R.Nontrivial = removedAny || e.R.Probes["over_limit"] > 0
	e.R.Key = strings.Join(sample, ";") + fmt.Sprint(mode)
	e.R.Sample = map[string]any{"mode": []string{"direct", "ticker"}[mode], "T_minus_start": gcDelay.String(), "metrics": sample}
}
