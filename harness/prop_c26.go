//go:build go1.23

package verifsim

import (
	"fmt"
	"os"
	"path/filepath"
	"sort"
	"strings"

	"github.com/google/mtail/internal/metrics"
)

// C26 — program directory scanning loads exactly the eligible files.
//
// SUT: the real runtime (LoadAllPrograms, LoadProgram, CompileAndRun,
// UnloadProgram, fan-out, VMs) on a real program directory. Every version v
// of file f declares a counter named after (f, v), so which version of which
// file is running is observable from which counters move when a line is fed.

func init() { register("C26", propC26) }

type c26File struct {
	version int // content version written last
	broken  int // 0: fine; 1: that content does not compile; 2: it compiles but its registration is refused (metric kind clash)
}

// Every version of every file declares the same metric at the same place and
// counts into its own label, so the counts survive reloads.
func c26Source(name string, v int, broken int) string {
	switch broken {
	case 1:
		return fmt.Sprintf("counter ver by v\n/./ {\n  ver[\"v%d\"]++\n", v) // missing brace
	case 2:
		// compiles, but "clash" is held as a counter by another program: the load is refused at registration
		return fmt.Sprintf("counter ver by v\ngauge clash\n/./ {\n  ver[\"v%d\"]++\n  clash = 1\n}\n", v)
	}
	return fmt.Sprintf("counter ver by v\n/./ {\n  ver[\"v%d\"]++\n}\n", v)
}

func c26Eligible(name string) bool {
	return !strings.HasPrefix(name, ".") && filepath.Ext(name) == ".mtail"
}

func propC26(e *Env) {
	// the directory's own name may contain characters that mean something to a glob; a sibling directory
	// that such a "pattern" would match holds a program that must never run
	dirName := []string{"progs", "progs", "progs[1]", "rules-[a-z]", "what?"}[e.Choose("gen", 5)]
	dir := filepath.Join(e.Dir, dirName)
	os.Mkdir(dir, 0o755)
	if dirName != "progs" {
		e.Probe("directory_name_with_glob_characters")
		for _, sib := range []string{"progs1", "rules-x", "whatx"} {
			os.Mkdir(filepath.Join(e.Dir, sib), 0o755)
			os.WriteFile(filepath.Join(e.Dir, sib, "stranger.mtail"), []byte(c26Source("stranger.mtail", 1, 0)), 0o644)
		}
	}
	e.S.StmtPreempt = e.Choose("knob", 3) == 1
	names := []string{"a.mtail", "b.mtail", "c.mtail", ".x.mtail", "notes.txt", "a.mtail.bak", "d.mtail.txt", "a.v2.mtail"}
	files := map[string]*c26File{}   // what is on disk (regular files directly in dir)
	removed := map[string]*c26File{} // the content a file had when it was last removed
	nextV := map[string]int{}
	// in half of the runs a metric of another program occupies the name "clash" as a counter, and a
	// "broken" edit may then also be one that compiles but is refused at registration
	withClash := e.Bool("gen")
	brokenKind := func() int {
		if withClash && e.Bool("gen") {
			e.Probe("edit_refused_at_registration")
			return 2
		}
		if e.Choose("gen", 4) == 0 {
			e.Probe("edit_dangling_symlink")
			return 3
		}
		return 1
	}
	// put creates or replaces the directory entry: a regular file with the source of (version, kind), or —
	// kind 3 — a symlink whose target does not exist (what a deploy that swaps links leaves for a moment):
	// the entry is there, it cannot be opened, so it is a load error and whatever ran before keeps running
	put := func(name string, v, kind int) {
		p := filepath.Join(dir, name)
		if fi, err := os.Lstat(p); err == nil && fi.Mode()&os.ModeSymlink != 0 {
			os.Remove(p)
		}
		if kind == 3 {
			os.Remove(p)
			os.Symlink(filepath.Join(dir, "gone", name), p)
			return
		}
		os.WriteFile(p, []byte(c26Source(name, v, kind)), 0o644)
	}
	writeFile := func(name string, broken int) {
		nextV[name]++
		files[name] = &c26File{version: nextV[name], broken: broken}
		put(name, nextV[name], broken)
	}
	// initial content
	for _, n := range names[:5] {
		if e.Choose("gen", 3) != 0 {
			if e.Choose("gen", 6) == 0 {
				writeFile(n, brokenKind())
			} else {
				writeFile(n, 0)
			}
		}
	}
	os.Mkdir(filepath.Join(dir, "sub"), 0o755)
	os.WriteFile(filepath.Join(dir, "sub", "inner.mtail"), []byte(c26Source("inner.mtail", 1, 0)), 0o644)
	if e.Bool("gen") {
		os.Mkdir(filepath.Join(dir, "d.mtail"), 0o755) // a directory *named* like a program
		os.WriteFile(filepath.Join(dir, "d.mtail", "e.mtail"), []byte(c26Source("e.mtail", 1, 0)), 0o644)
		e.Probe("directory_named_like_program")
	}
	base := map[string]progCounters{}
	for _, n := range append(names, "inner.mtail", "d.mtail", "e.mtail", "stranger.mtail") {
		base[n] = snapProg(n)
	}
	want := map[string]progCounters{}
	running := map[string]int{} // name -> running version
	// model of one scan
	scan := func() {
		var onDisk []string
		for n := range files {
			onDisk = append(onDisk, n)
		}
		sort.Strings(onDisk)
		for _, n := range onDisk {
			f := files[n]
			if !c26Eligible(n) {
				continue
			}
			w := want[n]
			if f.broken != 0 {
				w.loadErrs++
			} else if v, ok := running[n]; !ok || v != f.version {
				running[n] = f.version
				w.loads++
			}
			want[n] = w
		}
		for n := range running {
			if _, ok := files[n]; !ok {
				delete(running, n)
				w := want[n]
				w.unloads++
				want[n] = w
			}
		}
	}

	store := metrics.NewStore()
	if withClash {
		if err := store.Add(metrics.NewMetric("clash", "other.mtail", metrics.Counter, metrics.Int)); err != nil {
			e.Broken("store.Add: %v", err)
			return
		}
	}
	r := newRtRigStore(e, dir, store, swarmRtOpts(e)...)
	if !r.quiesce() {
		return
	}
	if !r.started || r.err != nil {
		e.Broken("runtime.New: started=%v err=%v", r.started, r.err)
		return
	}
	scan()
	var did []string
	lineNo := 0
	observe := func(ctxt string) bool {
		before := peekStore(r.store)
		done := false
		lineNo++
		r.feed("log", []string{fmt.Sprintf("line %d", lineNo)}, &done)
		if !r.quiesce() {
			return false
		}
		if !done {
			e.Fail("line-not-accepted", "%s: the runtime did not accept a line; live: %s", ctxt, liveString(e))
			return false
		}
		after := peekStore(r.store)
		// expected movers
		exp := map[string]bool{}
		for n, v := range running {
			exp[fmt.Sprintf("ver{%s}[v%d]", n, v)] = true
		}
		keys := map[string]bool{}
		for k := range before.vals {
			keys[k] = true
		}
		for k := range after.vals {
			keys[k] = true
		}
		for k := range exp {
			keys[k] = true
		}
		var ks []string
		for k := range keys {
			ks = append(ks, k)
		}
		sort.Strings(ks)
		for _, k := range ks {
			b, _ := before.intOfKey(k)
			a, okA := after.intOfKey(k)
			moved := a - b
			switch {
			case exp[k] && (!okA || moved != 1):
				cls := "eligible-not-running"
				if moved > 1 {
					cls = "line-processed-twice"
				}
				e.Fail(cls, "%s: history [%s]: one line was fed; %s should have moved by 1 (its file is eligible and compiled), moved by %d", ctxt, strings.Join(did, "; "), k, moved)
				return false
			case !exp[k] && moved != 0:
				cls := "stale-version"
				name := k[strings.Index(k, "{")+1 : strings.Index(k, "}")]
				if !c26Eligible(name) || name == "inner.mtail" || name == "e.mtail" || name == "d.mtail" || name == "stranger.mtail" {
					cls = "ineligible-loaded"
				} else if _, onDisk := files[name]; !onDisk {
					cls = "removed-still-running"
				}
				e.Fail(cls, "%s: history [%s]: one line was fed; %s moved by %d but that program version should not be running (running per model: %v)", ctxt, strings.Join(did, "; "), k, moved, running)
				return false
			}
		}
		// loader counters
		var ns []string
		for n := range base {
			ns = append(ns, n)
		}
		sort.Strings(ns)
		for _, n := range ns {
			got := snapProg(n).sub(base[n])
			w := want[n]
			if got.loads != w.loads || got.unloads != w.unloads || got.loadErrs != w.loadErrs {
				e.Fail("counter-mismatch", "%s: history [%s]: %s has loads=%d unloads=%d load_errors=%d, the events so far are loads=%d unloads=%d load_errors=%d",
					ctxt, strings.Join(did, "; "), n, got.loads, got.unloads, got.loadErrs, w.loads, w.unloads, w.loadErrs)
				return false
			}
		}
		return true
	}
	if !observe("after start-up") {
		return
	}
	nact := 1 + e.Choose("gen", 8)
	for i := 0; i < nact && !e.Failed(); i++ {
		n := names[e.Choose("gen", len(names))]
		var desc string
		switch e.Choose("gen", 8) {
		case 0, 1:
			writeFile(n, 0)
			desc = fmt.Sprintf("write %s v%d", n, nextV[n])
			e.Probe("edit_valid")
		case 2:
			writeFile(n, brokenKind())
			desc = fmt.Sprintf("write %s v%d (broken, kind %d)", n, nextV[n], files[n].broken)
			e.Probe("edit_broken")
		case 3:
			if f, ok := files[n]; ok && f.broken != 0 {
				writeFile(n, 0)
				desc = fmt.Sprintf("restore %s v%d", n, nextV[n])
				e.Probe("restore")
			} else {
				desc = "nop"
			}
		case 4:
			if f, ok := files[n]; ok {
				os.Remove(filepath.Join(dir, n))
				removed[n] = f
				delete(files, n)
				desc = "remove " + n
				e.Probe("remove")
			} else if f, ok := removed[n]; ok {
				// the very same bytes come back under the same name
				put(n, f.version, f.broken)
				files[n] = f
				delete(removed, n)
				desc = fmt.Sprintf("put back %s v%d unchanged", n, f.version)
				e.Probe("put_back_identical")
			} else {
				desc = "nop"
			}
		case 5:
			to := names[e.Choose("gen", len(names))]
			if f, ok := files[n]; ok && to != n {
				if _, exists := files[to]; !exists {
					os.Rename(filepath.Join(dir, n), filepath.Join(dir, to))
					delete(files, n)
					// the content (and its counter names) moves with the file
					files[to] = f
					// the renamed file declares counters named after the OLD name; give it fresh content instead
					writeFile(to, f.broken)
					desc = fmt.Sprintf("rename %s -> %s (v%d)", n, to, nextV[to])
					e.Probe("rename")
					if !c26Eligible(to) {
						e.Probe("rename_to_ineligible")
					}
					break
				}
			}
			desc = "nop"
		case 6:
			// same content rewritten (touch): nothing may change
			if f, ok := files[n]; ok {
				put(n, f.version, f.broken)
				desc = "touch " + n
				e.Probe("touch")
			} else {
				desc = "nop"
			}
		default:
			desc = "reload only"
		}
		did = append(did, desc)
		e.Event("action %d %s", i, desc)
		// reload, possibly while lines flow
		flow := e.Choose("gen", 3) == 0
		var fedDone, relDone bool
		var relErr error
		nflow := 0
		contBefore := map[string]int64{}
		if flow {
			nflow = 1 + e.Choose("gen", 5)
			var ls []string
			for k := 0; k < nflow; k++ {
				lineNo++
				ls = append(ls, fmt.Sprintf("line %d", lineNo))
			}
			v := peekStore(r.store)
			for name := range running {
				var sum int64
				for k, s := range v.vals {
					if strings.HasPrefix(k, "ver{"+name+"}[") {
						var x int64
						fmt.Sscan(s, &x)
						sum += x
					}
				}
				contBefore[name] = sum
			}
			r.feed("log", ls, &fedDone)
			e.Probe("reload_while_lines_flow")
		}
		r.reload(&relDone, &relErr)
		if !r.quiesce() {
			return
		}
		if !relDone || (flow && !fedDone) {
			e.Fail("reload-stuck", "history [%s]: reload done=%v, feeder done=%v; live: %s", strings.Join(did, "; "), relDone, fedDone, liveString(e))
			return
		}
		if relErr != nil {
			e.Fail("reload-error", "history [%s]: LoadAllPrograms returned %v", strings.Join(did, "; "), relErr)
			return
		}
		prev := map[string]int{}
		for k, v := range running {
			prev[k] = v
		}
		scan()
		if flow {
			// programs running before and after the reload saw every line exactly once, in one version or the other
			v := peekStore(r.store)
			for name := range running {
				if _, was := prev[name]; !was {
					continue
				}
				var sum int64
				for k, s := range v.vals {
					if strings.HasPrefix(k, "ver{"+name+"}[") {
						var x int64
						fmt.Sscan(s, &x)
						sum += x
					}
				}
				if sum-contBefore[name] != int64(nflow) {
					cls := "line-lost-across-reload"
					if sum-contBefore[name] > int64(nflow) {
						cls = "line-processed-twice"
					}
					e.Fail(cls, "history [%s]: %d lines were fed while %s was reloaded (v%d -> v%d); its versions' counters together moved by %d", strings.Join(did, "; "), nflow, name, prev[name], running[name], sum-contBefore[name])
					return
				}
			}
		}
		if !observe(fmt.Sprintf("after action %d (%s)", i, desc)) {
			return
		}
	}
	if e.Failed() {
		return
	}
	r.shutdown()
	e.R.Nontrivial = len(did) > 0 && (e.R.Probes["edit_valid"]+e.R.Probes["edit_broken"]+e.R.Probes["remove"]+e.R.Probes["rename"] > 0)
	e.R.Key = strings.Join(did, ";") + fmt.Sprintf("|%x", e.S.Signature())
	e.R.Sample = map[string]any{"actions": did, "running_at_end": fmt.Sprint(running)}
}

func (v *storeView) intOfKey(k string) (int64, bool) {
	s, ok := v.vals[k]
	if !ok {
		return 0, false
	}
	var n int64
	_, err := fmt.Sscan(s, &n)
	return n, err == nil
}
