//go:build go1.23

package verifsim

import (
	"encoding/json"
	"fmt"
	"math"
	"strings"
	"time"

	"github.com/google/mtail/internal/metrics"
	"github.com/google/mtail/internal/metrics/datum"
	"github.com/google/mtail/internal/simrt"
)

// C09 — a metric behaves as an insertion-ordered map from label tuples to
// (value, timestamp, expiry).
//
// SUT: the real metrics.Metric and datum types. One client task issues a
// generated operation history; after every operation the metric is compared
// with a reference model. The simulator contributes the clock (timestamps of
// updates made with the zero time must equal the simulated instant) and runs
// the label-set emitter goroutine under the scheduler.

func init() { register("C09", propC09) }

type mEntry struct {
	labels  []string
	ival    int64
	fval    float64
	sval    string
	count   uint64
	sum     float64
	ts      int64 // unix nanos of the last update
	tsKnown bool  // false until the first update (creation stamp is unspecified)
	expiry  time.Duration
	d       datum.Datum
}

type mModel struct {
	typ     metrics.Type
	entries []*mEntry
}

func (m *mModel) find(t []string) int {
	for i, e := range m.entries {
		if len(e.labels) == len(t) {
			eq := true
			for j := range t {
				if e.labels[j] != t[j] {
					eq = false
				}
			}
			if eq {
				return i
			}
		}
	}
	return -1
}

var c09Combos = []struct {
	k metrics.Kind
	t metrics.Type
}{
	{metrics.Counter, metrics.Int}, {metrics.Counter, metrics.Float}, {metrics.Gauge, metrics.Int}, {metrics.Gauge, metrics.Float},
	{metrics.Timer, metrics.Int}, {metrics.Timer, metrics.Float}, {metrics.Text, metrics.String}, {metrics.Histogram, metrics.Buckets},
}

func c09Universe(arity int) [][]string {
	vals := []string{"a", "b", ""}
	switch arity {
	case 0:
		return [][]string{{}}
	case 1:
		return [][]string{{"a"}, {"b"}, {""}, {"a-"}, {"-a"}, {"a\\-"}, {"-"}}
	case 2:
		// two of the tuples differ only in where a hyphen sits relative to the label boundary
		// ... and two more differ only in which side of the boundary a leading hyphen is on
		return [][]string{{"a", "a"}, {"a-", "b"}, {"a", "-b"}, {"b", "b"}, {"", "a"}, {"a", ""}, {"-", "a"}, {"", "-a"}}
	}
	var u [][]string
	for i := 0; i < 4; i++ {
		u = append(u, []string{vals[i%3], vals[(i/3)%3], vals[(i+1)%3]})
	}
	u = append(u, []string{"a-", "", "b"}, []string{"a", "-", "b"}, []string{"a", "", "-b"})
	return u
}

func cp(t []string) []string { return append([]string{}, t...) }

// c09Check compares the real metric with the model through every read path.
func c09Check(e *Env, m *metrics.Metric, mo *mModel, after string) {
	if e.Failed() {
		return
	}
	// 1. enumeration through EmitLabelSets, under the read lock as its callers do
	m.RLock()
	c := make(chan *metrics.LabelSet)
	simrt.Go(simrt.KHarness, func() { m.EmitLabelSets(c) })
	type seen struct {
		labels map[string]string
		d      datum.Datum
	}
	var got []seen
	for {
		ls, ok := simrt.Recv(c)
		if !ok {
			break
		}
		got = append(got, seen{ls.Labels, ls.Datum})
	}
	m.RUnlock()
	if len(got) != len(mo.entries) {
		cls := "enum-missing"
		if len(got) > len(mo.entries) {
			cls = "enum-dup"
		}
		e.Fail(cls, "after %s: enumeration lists %d label sets, model has %d", after, len(got), len(mo.entries))
		return
	}
	for i, g := range got {
		w := mo.entries[i]
		for j, k := range m.Keys {
			if g.labels[k] != w.labels[j] {
				e.Fail("enum-order", "after %s: enumeration position %d is %v, model expects %q", after, i, g.labels, w.labels)
				return
			}
		}
		if g.d != w.d {
			e.Fail("enum-order", "after %s: enumeration position %d (%q) yields a different datum object than GetDatum returned", after, i, w.labels)
			return
		}
		// slice and index agree
		lv := m.FindLabelValueOrNil(cp(w.labels))
		if lv == nil || lv.Value != w.d {
			e.Fail("enum-missing", "after %s: tuple %q is enumerated but not found by lookup (or found with another datum)", after, w.labels)
			return
		}
		if lv.Expiry != w.expiry {
			e.Fail("expiry", "after %s: tuple %q has expiry %v, model %v", after, w.labels, lv.Expiry, w.expiry)
			return
		}
		if !c09ValueEq(mo.typ, g.d, w) {
			e.Fail("value", "after %s: tuple %q has value %s, model %s", after, w.labels, g.d.ValueString(), c09ModelValue(mo.typ, w))
			return
		}
		if w.tsKnown && g.d.TimeUTC().UnixNano() != w.ts {
			e.Fail("timestamp", "after %s: tuple %q has timestamp %v, model %v", after, w.labels, g.d.TimeUTC().UTC(), time.Unix(0, w.ts).UTC())
			return
		}
	}
	// 2. JSON view
	b, err := json.Marshal(m)
	if err != nil {
		e.Fail("json", "after %s: json.Marshal: %v", after, err)
		return
	}
	var jm struct {
		LabelValues []struct {
			Labels []string
			Value  map[string]json.RawMessage
			Expiry int64
		}
	}
	if err := json.Unmarshal(b, &jm); err != nil {
		e.Fail("json", "after %s: metric JSON does not parse: %v", after, err)
		return
	}
	if len(jm.LabelValues) != len(mo.entries) {
		e.Fail("enum-missing", "after %s: JSON lists %d label values, model has %d", after, len(jm.LabelValues), len(mo.entries))
		return
	}
	for i, lv := range jm.LabelValues {
		w := mo.entries[i]
		if strings.Join(lv.Labels, "\x00") != strings.Join(w.labels, "\x00") {
			e.Fail("enum-order", "after %s: JSON position %d is %q, model %q", after, i, lv.Labels, w.labels)
			return
		}
		if time.Duration(lv.Expiry) != w.expiry {
			e.Fail("expiry", "after %s: JSON expiry of %q is %v, model %v", after, w.labels, time.Duration(lv.Expiry), w.expiry)
			return
		}
		if w.tsKnown {
			var t int64
			json.Unmarshal(lv.Value["Time"], &t)
			if t != w.ts {
				e.Fail("timestamp", "after %s: JSON time of %q is %d, model %d", after, w.labels, t, w.ts)
				return
			}
		}
	}
	// 3. absent tuples are not found
	for _, t := range c09Universe(len(m.Keys)) {
		if mo.find(t) < 0 && m.FindLabelValueOrNil(cp(t)) != nil {
			e.Fail("absent-semantics", "after %s: tuple %q is found by lookup but is not live in the model", after, t)
			return
		}
	}
}

func c09ValueEq(t metrics.Type, d datum.Datum, w *mEntry) bool {
	switch t {
	case metrics.Int:
		return datum.GetInt(d) == w.ival
	case metrics.Float:
		g := datum.GetFloat(d)
		return g == w.fval || (math.IsNaN(g) && math.IsNaN(w.fval))
	case metrics.String:
		return datum.GetString(d) == w.sval
	case metrics.Buckets:
		return datum.GetBucketsCount(d) == w.count && datum.GetBucketsSum(d) == w.sum
	}
	return false
}

func c09ModelValue(t metrics.Type, w *mEntry) string {
	switch t {
	case metrics.Int:
		return fmt.Sprint(w.ival)
	case metrics.Float:
		return fmt.Sprint(w.fval)
	case metrics.String:
		return fmt.Sprintf("%q", w.sval)
	}
	return fmt.Sprintf("count=%d sum=%g", w.count, w.sum)
}

func propC09(e *Env) {
	combo := c09Combos[e.Choose("gen", len(c09Combos))]
	arity := e.Choose("gen", 4)
	keys := []string{"k1", "k2", "k3"}[:arity]
	nops := 5 + e.Choose("gen", 36)
	var ops []string
	done := false
	e.S.Go("client", func() {
		defer func() { done = true }()
		m := metrics.NewMetric("m", "prog", combo.k, combo.t, keys...)
		if combo.t == metrics.Buckets {
			m.Buckets = []datum.Range{{Min: 0, Max: 1}, {Min: 1, Max: 2}, {Min: 2, Max: 4}}
		}
		mo := &mModel{typ: combo.t}
		uni := c09Universe(arity)
		wrong := func() []string {
			if arity == 0 || e.Bool("gen") {
				return append(cp(uni[e.Choose("gen", len(uni))]), "x")
			}
			return cp(uni[0][:arity-1])
		}
		for i := 0; i < nops && !e.Failed(); i++ {
			t := uni[e.Choose("gen", len(uni))]
			var desc string
			switch op := e.Choose("gen", 12); op {
			case 0, 1: // lookup / create
				d, err := m.GetDatum(cp(t)...)
				desc = fmt.Sprintf("GetDatum%q", t)
				if err != nil {
					e.Fail("arity-accepted", "%s failed for a tuple of the right length: %v", desc, err)
					break
				}
				if j := mo.find(t); j >= 0 {
					if mo.entries[j].d != d {
						e.Fail("value", "%s returned a different datum than before", desc)
					}
				} else {
					mo.entries = append(mo.entries, &mEntry{labels: cp(t), d: d})
					e.Probe("create")
				}
			case 2, 3, 4: // update (creates if needed, as the VM does)
				d, err := m.GetDatum(cp(t)...)
				if err != nil {
					e.Fail("arity-accepted", "GetDatum%q failed: %v", t, err)
					break
				}
				j := mo.find(t)
				if j < 0 {
					mo.entries = append(mo.entries, &mEntry{labels: cp(t), d: d})
					j = len(mo.entries) - 1
				}
				w := mo.entries[j]
				var ts time.Time
				if e.Bool("gen") {
					ts = time.Unix(int64(946000000+e.Choose("gen", 2000000)), int64(e.Choose("gen", 3))*500000000)
					w.ts = ts.UnixNano()
				} else {
					w.ts = time.Now().UnixNano()
					e.Probe("update_with_zero_time")
				}
				w.tsKnown = true
				v := int64(e.Choose("gen", 7)) - 2
				switch combo.t {
				case metrics.Int:
					switch e.Choose("gen", 3) {
					case 0:
						datum.SetInt(d, v, ts)
						w.ival = v
						desc = fmt.Sprintf("Set%q=%d", t, v)
					case 1:
						datum.IncIntBy(d, v, ts)
						w.ival += v
						desc = fmt.Sprintf("Inc%q by %d", t, v)
					default:
						datum.DecIntBy(d, v, ts)
						w.ival -= v
						desc = fmt.Sprintf("Dec%q by %d", t, v)
					}
				case metrics.Float:
					f := float64(v) / 2
					datum.SetFloat(d, f, ts)
					w.fval = f
					desc = fmt.Sprintf("SetFloat%q=%g", t, f)
				case metrics.String:
					s := fmt.Sprintf("s%d", v)
					datum.SetString(d, s, ts)
					w.sval = s
					desc = fmt.Sprintf("SetString%q=%s", t, s)
				case metrics.Buckets:
					f := float64(v) / 2
					datum.Observe(d, f, ts)
					w.count++
					w.sum += f
					desc = fmt.Sprintf("Observe%q %g", t, f)
				}
			case 5, 6: // delete (absent: no-op)
				desc = fmt.Sprintf("RemoveDatum%q", t)
				if err := m.RemoveDatum(cp(t)...); err != nil {
					e.Fail("absent-semantics", "%s returned an error: %v", desc, err)
					break
				}
				if j := mo.find(t); j >= 0 {
					mo.entries = append(mo.entries[:j], mo.entries[j+1:]...)
					e.Probe("delete_live")
				} else {
					e.Probe("delete_absent")
				}
			case 7: // expiry mark (absent: error)
				exp := time.Duration(e.Choose("gen", 6)) * time.Minute // 0 = "never", also a mark
				desc = fmt.Sprintf("ExpireDatum(%v)%q", exp, t)
				err := m.ExpireDatum(exp, cp(t)...)
				if j := mo.find(t); j >= 0 {
					if err != nil {
						e.Fail("expiry", "%s on a live tuple failed: %v", desc, err)
					}
					mo.entries[j].expiry = exp
				} else {
					e.Probe("expire_absent")
					if err == nil {
						e.Fail("absent-semantics", "%s on an absent tuple did not return an error", desc)
					}
				}
			case 8: // wrong arity is rejected and changes nothing
				wt := wrong()
				desc = fmt.Sprintf("wrong-arity%q", wt)
				var err error
				switch e.Choose("gen", 3) {
				case 0:
					_, err = m.GetDatum(wt...)
				case 1:
					err = m.RemoveDatum(wt...)
				default:
					err = m.ExpireDatum(time.Minute, wt...)
				}
				e.Probe("wrong_arity")
				if err == nil {
					e.Fail("arity-accepted", "an operation with tuple %q of the wrong length (metric has %d keys) was accepted", wt, arity)
				}
			case 9: // remove oldest, only when every timestamp is determined
				all := len(mo.entries) > 0
				for _, w := range mo.entries {
					if !w.tsKnown {
						all = false
					}
				}
				if !all {
					desc = "nop"
					break
				}
				desc = "RemoveOldestDatum"
				m.RemoveOldestDatum()
				e.Probe("remove_oldest")
				min := mo.entries[0].ts
				for _, w := range mo.entries {
					if w.ts < min {
						min = w.ts
					}
				}
				removed := -1
				for j, w := range mo.entries {
					if m.FindLabelValueOrNil(cp(w.labels)) == nil {
						if removed >= 0 {
							e.Fail("absent-semantics", "RemoveOldestDatum removed more than one tuple")
						}
						removed = j
					}
				}
				if removed < 0 {
					e.Fail("absent-semantics", "RemoveOldestDatum removed nothing from a non-empty metric")
					break
				}
				if mo.entries[removed].ts != min {
					e.Fail("value", "RemoveOldestDatum removed %q (t=%d) although an older datum (t=%d) exists", mo.entries[removed].labels, mo.entries[removed].ts, min)
				}
				mo.entries = append(mo.entries[:removed], mo.entries[removed+1:]...)
			case 10: // several tasks look the same tuple up at once (creating it if absent): one datum
				k := 2 + e.Choose("gen", 2)
				desc = fmt.Sprintf("%d concurrent GetDatum%q", k, t)
				type res struct {
					d   datum.Datum
					err error
				}
				rc := make(chan res)
				for c := 0; c < k; c++ {
					tc := cp(t)
					simrt.Go(simrt.KHarness, func() {
						d, err := m.GetDatum(tc...)
						simrt.Send(rc, res{d, err})
					})
				}
				var first datum.Datum
				for c := 0; c < k; c++ {
					r, _ := simrt.Recv(rc)
					if r.err != nil {
						e.Fail("arity-accepted", "%s failed for a tuple of the right length: %v", desc, r.err)
						break
					}
					if first == nil {
						first = r.d
					} else if r.d != first {
						e.Fail("enum-dup", "%s: two of the lookups returned different datum objects for the same tuple", desc)
					}
				}
				e.Probe("concurrent_lookup")
				if e.Failed() {
					break
				}
				if j := mo.find(t); j >= 0 {
					if mo.entries[j].d != first {
						e.Fail("value", "%s returned a different datum than before", desc)
					}
				} else {
					mo.entries = append(mo.entries, &mEntry{labels: cp(t), d: first})
					e.Probe("create")
					e.Probe("concurrent_create")
				}
			default: // let time pass
				d := time.Duration(1+e.Choose("gen", 5000)) * time.Millisecond
				desc = fmt.Sprintf("sleep %v", d)
				time.Sleep(d)
			}
			ops = append(ops, desc)
			e.Event("op %d %s", i, desc)
			c09Check(e, m, mo, fmt.Sprintf("op %d (%s) of history [%s]", i, desc, strings.Join(ops, "; ")))
		}
	})
	for i := 0; i < 100000 && !done && !e.S.OverBudget(); i++ {
		if !e.S.Step() {
			// everything is blocked: the client is asleep — let time move
			e.S.Advance(10 * time.Second)
		}
	}
	if !done && !e.Failed() {
		e.Fail("not-finished", "client did not finish; live: %s", liveString(e))
	}
	e.R.Nontrivial = e.R.Probes["create"] >= 2 && (e.R.Probes["delete_live"] > 0 || e.R.Probes["remove_oldest"] > 0)
	e.R.Key = fmt.Sprintf("%v/%v/%d|%s", combo.k, combo.t, arity, strings.Join(ops, ";"))
	e.R.Sample = map[string]any{"kind": combo.k.String(), "type": combo.t.String(), "keys": arity, "ops": ops}
}
