//go:build go1.23

package verifsim

import (
	"bytes"
	"context"
	"encoding/json"
	"fmt"
	"net/http"
	"os"
	"path/filepath"
	"regexp"
	"sort"
	"strconv"
	"strings"
	"time"

	"github.com/google/mtail/internal/logline"
	"github.com/google/mtail/internal/metrics"
	"github.com/google/mtail/internal/metrics/datum"
	"github.com/google/mtail/internal/simrt"
)

// C11 — concurrent processing, export, reload and GC are race-free.
//
// SUT (all real): runtime + VMs, store + GC ticker loop, exporter with every
// export path (Prometheus gather, JSON, varz and graphite handlers, push with
// the three formatters into a stub connection). One workload, several oracles:
//
//	O1  no data race: the binary is built with -race; the scheduler's own
//	    hand-offs are hidden from the detector (runtime.RaceDisable) so that only
//	    the program's own synchronisation orders accesses; any report whose
//	    stacks are in mtail code is a violation (checked by the worker after
//	    every run through the race log);
//	O2  no lost update: at quiescence every counter equals the number of
//	    increments the lines call for (unless the datum was legitimately
//	    removed in between);
//	O3  exports reflect values that existed: every exported sample of a
//	    monotone series lies between 0 and its final value, never decreases
//	    between successive exports by the same exporter, and every exported
//	    label set is one that some line created;
//	O4  no panic, no deadlock, everything finishes within the step budget.

func init() { register("C11", propC11) }

func c11Source(ver int) string {
	return fmt.Sprintf(`# v%d
counter total
counter bytag by tag limit 4
gauge lineno
histogram lat buckets 1, 2, 4, 8 by tag
text lasttag
counter tmp by k
/^(?P<n>\d+) (?P<tag>\w+) (?P<ms>\d+)$/ {
  total++
  bytag[$tag]++
  lineno = $n
  lat[$tag] = $ms
  lasttag = $tag
  tmp[$tag]++
}
/^del (?P<tag>\w+)$/ {
  del tmp[$tag]
}
/^exp (?P<tag>\w+)$/ {
  del tmp[$tag] after 10m
}
`, ver)
}

var c11SampleRe = regexp.MustCompile(`^([a-zA-Z_:][a-zA-Z0-9_:]*)(\{[^}]*\})? (\S+)`)

func propC11(e *Env) {
	dir := filepath.Join(e.Dir, "progs")
	os.Mkdir(dir, 0o755)
	prog := "w.mtail"
	os.WriteFile(filepath.Join(dir, prog), []byte(c11Source(0)), 0o644)
	e.S.StmtPreempt = e.Choose("knob", 4) != 0
	if e.Bool("knob") {
		e.S.Quanta = []int{0, 0, 1, 1, 2, 3, 5, 20}
	}
	ctx, cancel := context.WithCancel(context.Background())
	defer cancel()
	store := metrics.NewStore()
	ex, ps := newDaemonExport(e, ctx, store)
	if ex == nil {
		return
	}
	r := newRtRigStore(e, dir, store, swarmRtOpts(e)...)
	if !r.quiesce() || !r.started || r.err != nil {
		e.Broken("runtime.New: %v", r.err)
		return
	}
	withGC := e.Choose("knob", 4) != 0
	withReload := e.Choose("knob", 3) != 0
	if withGC {
		e.S.Go("start-gc", func() { store.StartGcLoop(ctx, 5*time.Minute) })
	}
	N := 10 + e.Choose("gen", 40)
	tags := []string{"a", "b", "c", "d", "e", "f"}
	var lines []string
	perTag := map[string]int64{}
	matched := int64(0)
	usesDel := e.Bool("gen")
	for i := 1; i <= N; i++ {
		t := tags[e.Choose("gen", len(tags))]
		switch k := e.Choose("gen", 12); {
		case k == 0 && usesDel:
			lines = append(lines, "del "+t)
		case k == 1 && usesDel:
			lines = append(lines, "exp "+t)
		default:
			lines = append(lines, fmt.Sprintf("%d %s %d", i, t, e.Choose("gen", 10)))
			perTag[t]++
			matched++
		}
	}
	// The feeder stamps every line with the scheduler step at which it started to hand it over: no effect
	// of the line can exist before that step.
	const never = int(^uint(0) >> 1)
	invoke := make([]int, len(lines))
	isMatch := make([]bool, len(lines))
	lineNoOf := make([]int, len(lines))
	for i, l := range lines {
		invoke[i] = never
		var a, c int
		var b string
		if n, _ := fmt.Sscanf(l, "%d %s %d", &a, &b, &c); n == 3 {
			isMatch[i] = true
			lineNoOf[i] = a
		}
	}
	fedDone := false
	e.S.Go("feeder", func() {
		for i, l := range lines {
			invoke[i] = e.S.Steps
			simrt.Send(r.lines, logline.New(context.Background(), "log", l))
		}
		fedDone = true
	})
	// check of one exported sample read between steps ri and rr against the values that had existed by
	// then. The statement asks for "a value that existed at some point", not for the most recent one (an
	// export cache would be legitimate), so only the upper side is a violation: a counter value larger
	// than the number of increments begun when the read ended, or a gauge value no line begun by then wrote.
	windowCheck := func(name, series string, v float64, ri, rr int) string {
		switch {
		case strings.HasPrefix(series, "total{") || series == "total":
			hi := 0
			for j := range lines {
				if isMatch[j] && invoke[j] <= rr {
					hi++
				}
			}
			if v < 0 || int(v) > hi || v != float64(int(v)) {
				return fmt.Sprintf("%s read %s = %v in a scrape that ended at step %d, when only %d increments had begun: the counter never held that value", name, series, v, rr, hi)
			}
		case strings.HasPrefix(series, "lineno{") || series == "lineno":
			ok := v == 0
			for j := range lines {
				if isMatch[j] && invoke[j] <= rr && lineNoOf[j] == int(v) && v == float64(int(v)) {
					ok = true
				}
			}
			if !ok {
				return fmt.Sprintf("%s read %s = %v in a scrape that ended at step %d: no line begun by then wrote that value", name, series, v, rr)
			}
		}
		return ""
	}
	// exporter tasks
	type sample struct {
		series string
		v      float64
	}
	exportsDone := 0
	nExporters := 0
	var problems []string
	monotone := func(series string) bool {
		return strings.HasPrefix(series, "total") || strings.HasPrefix(series, "bytag") || strings.HasPrefix(series, "lineno") || strings.HasPrefix(series, "lat_count")
	}
	startExporter := func(name string, rounds int, scrape func() (string, error)) {
		nExporters++
		e.S.Go("export-"+name, func() {
			defer func() { exportsDone++ }()
			last := map[string]float64{}
			for i := 0; i < rounds; i++ {
				ri := e.S.Steps
				out, err := scrape()
				rr := e.S.Steps
				if err != nil {
					problems = append(problems, fmt.Sprintf("%s export failed: %v", name, err))
					return
				}
				if msg := c11HistogramCoherent(name, out); msg != "" {
					problems = append(problems, msg)
				}
				for _, l := range strings.Split(out, "\n") {
					m := c11SampleRe.FindStringSubmatch(l)
					if m == nil || strings.HasPrefix(l, "#") {
						continue
					}
					series := m[1] + m[2]
					v, perr := strconv.ParseFloat(m[3], 64)
					if perr != nil || !monotone(series) {
						continue
					}
					if msg := windowCheck(name, series, v, ri, rr); msg != "" {
						problems = append(problems, msg)
					}
					if p, ok := last[series]; ok && v < p && !strings.HasPrefix(series, "bytag") {
						problems = append(problems, fmt.Sprintf("%s: %s went from %v to %v between two successive exports", name, series, p, v))
					}
					last[series] = v
					limit := float64(matched)
					if strings.HasPrefix(series, "lineno") {
						limit = float64(N)
					}
					if v < 0 || v > limit {
						problems = append(problems, fmt.Sprintf("%s: %s = %v was never a value of that series (max %v)", name, series, v, limit))
					}
				}
				simrt.HYield()
			}
		})
	}
	rounds := 1 + e.Choose("gen", 4)
	if e.Bool("gen") {
		startExporter("prometheus", rounds, ps.Scrape)
	}
	handler := func(h func(http.ResponseWriter, *http.Request)) func() (string, error) {
		return func() (string, error) {
			rw := &c12RW{hdr: http.Header{}}
			req, _ := http.NewRequest("GET", "/", nil)
			h(rw, req)
			return rw.buf.String(), nil
		}
	}
	if e.Bool("gen") {
		startExporter("varz", rounds, handler(ex.HandleVarz))
	}
	if e.Bool("gen") {
		startExporter("graphite", rounds, handler(ex.HandleGraphite))
	}
	jsonOut := ""
	if e.Bool("gen") {
		startExporter("json", rounds, func() (string, error) {
			s, err := handler(ex.HandleJSON)()
			jsonOut = s
			if msg := c11HistogramCoherentJSON(s); msg != "" {
				problems = append(problems, msg)
			}
			return "", err
		})
	}
	if e.Bool("gen") {
		startExporter("push", rounds, func() (string, error) {
			c12Plans = map[string]*c12ConnPlan{}
			c12Conns = nil
			ex.PushMetrics()
			return "", nil
		})
	}
	if e.Bool("gen") {
		startExporter("store-json", rounds, func() (string, error) {
			var b bytes.Buffer
			err := store.WriteMetrics(&b)
			return "", err
		})
	}
	// several clients of ONE metric through the metrics API (what a metric's own lock is for)
	apiClients := 0
	apiDone := 0
	var apiMetric *metrics.Metric
	apiTuples := []string{"p", "q", "r", "s"}
	if e.Bool("gen") {
		apiMetric = metrics.NewMetric("api_shared", "harness", metrics.Counter, metrics.Int, "k")
		store.Add(apiMetric)
		apiClients = 2 + e.Choose("gen", 2)
		for c := 0; c < apiClients; c++ {
			e.S.Go("api-client", func() {
				defer func() { apiDone++ }()
				for _, t := range apiTuples {
					d, err := apiMetric.GetDatum(t)
					if err == nil {
						datum.IncIntBy(d, 1, time.Time{})
					}
					simrt.HYield()
				}
			})
		}
	}
	// reload task
	reloads := 0
	reloadsDone := true
	if withReload {
		reloadsDone = false
		k := 1 + e.Choose("gen", 3)
		e.S.Go("reloader", func() {
			for i := 1; i <= k; i++ {
				os.WriteFile(filepath.Join(dir, prog), []byte(c11Source(i)), 0o644)
				r.rt.LoadAllPrograms()
				reloads++
				simrt.HYield()
			}
			reloadsDone = true
		})
	}
	// drive: interleave scheduler steps with clock advances (GC ticks)
	for i := 0; i < 4000000 && !e.S.OverBudget(); i++ {
		if !e.S.Step() {
			if fedDone && reloadsDone && exportsDone == nExporters && apiDone == apiClients {
				break
			}
			e.S.Advance(5 * time.Minute)
			continue
		}
		if withGC && e.Choose("env", 200) == 0 {
			e.S.Advance(time.Duration(1+e.Choose("env", 6)) * time.Minute)
			e.Fault("clock_advance_mid_run")
		}
	}
	if !fedDone || !reloadsDone || exportsDone != nExporters {
		e.Fail("deadlock", "feeder done=%v reloads done=%v exports done %d/%d after %d steps; live: %s", fedDone, reloadsDone, exportsDone, nExporters, e.S.Steps, liveString(e))
		return
	}
	if len(problems) > 0 {
		cls := "phantom-value"
		if strings.Contains(problems[0], "export failed") {
			cls = "export-error"
		}
		e.Fail(cls, "%d lines, reloads=%d gc=%v: %s", N, reloads, withGC, strings.Join(problems, "; "))
		return
	}
	// final values through the store's own synchronised API, from a task
	final := map[string]int64{}
	finalTags := map[string]bool{}
	collected := false
	e.S.Go("collect", func() {
		store.Range(func(m *metrics.Metric) error {
			m.RLock()
			defer m.RUnlock()
			if m.Program != prog {
				return nil
			}
			for _, lv := range m.LabelValues {
				if d, ok := lv.Value.(*datum.Int); ok {
					final[m.Name+"["+strings.Join(lv.Labels, ",")+"]"] = d.Get()
				}
				if m.Name == "bytag" {
					finalTags[lv.Labels[0]] = true
				}
			}
			return nil
		})
		collected = true
	})
	if !r.quiesce() || !collected {
		e.Fail("deadlock", "final collection stuck; live: %s", liveString(e))
		return
	}
	if apiMetric != nil {
		perTuple := map[string]int64{}
		sets := map[string]int{}
		doneAPI := false
		e.S.Go("collect-api", func() {
			apiMetric.RLock()
			for _, lv := range apiMetric.LabelValues {
				perTuple[lv.Labels[0]] += datum.GetInt(lv.Value)
				sets[lv.Labels[0]]++
			}
			apiMetric.RUnlock()
			doneAPI = true
		})
		if !r.quiesce() || !doneAPI {
			e.Fail("deadlock", "collecting the API metric got stuck; live: %s", liveString(e))
			return
		}
		for _, t := range apiTuples {
			if sets[t] != 1 || perTuple[t] != int64(apiClients) {
				e.Fail("lost-increment", "%d clients each incremented api_shared[%s] once through GetDatum: the metric holds %d label sets for it with a total of %d", apiClients, t, sets[t], perTuple[t])
				return
			}
		}
	}
	if final["total[]"] != matched {
		e.Fail("lost-increment", "%d matching lines, reloads=%d gc=%v exporters=%d: counter total is %d", matched, reloads, withGC, nExporters, final["total[]"])
		return
	}
	if final["lineno[]"] == 0 && matched > 0 {
		e.Fail("lost-increment", "gauge lineno was never set")
		return
	}
	// bytag has limit 4: GC may evict the oldest label sets; those still present must be exact
	for t := range finalTags {
		if !withGC && final["bytag["+t+"]"] != perTag[t] {
			e.Fail("lost-increment", "tag %s matched %d lines, bytag[%s] is %d (no GC in this run)", t, perTag[t], t, final["bytag["+t+"]"])
			return
		}
		if final["bytag["+t+"]"] > perTag[t] {
			e.Fail("phantom-value", "tag %s matched %d lines, bytag[%s] is %d", t, perTag[t], t, final["bytag["+t+"]"])
			return
		}
	}
	if jsonOut != "" {
		var ms []map[string]any
		if err := json.Unmarshal([]byte(jsonOut), &ms); err != nil {
			e.Fail("export-error", "the JSON export is not valid JSON: %v", err)
			return
		}
	}
	cancel()
	e.S.Go("stop", func() { ex.Stop() })
	if !r.shutdown() {
		return
	}
	var kinds []string
	for k := range e.R.Probes {
		kinds = append(kinds, k)
	}
	sort.Strings(kinds)
	e.R.Nontrivial = nExporters > 0 && (withGC || withReload)
	e.R.Key = fmt.Sprintf("%d|%d|%v|%v|%x", N, nExporters, withGC, withReload, e.S.Signature())
	e.R.Sample = map[string]any{"lines": N, "exporters": nExporters, "gc_loop": withGC, "reloads": reloads, "statement_preemption": e.S.StmtPreempt}
}

var c11BucketRe = regexp.MustCompile(`^lat_bucket\{(.*?),?le="([^"]+)"\} (\S+)$`)
var c11CountRe = regexp.MustCompile(`^lat_count(\{.*\})? (\S+)$`)

// c11HistogramCoherent checks one Prometheus text exposition: for every histogram label set the
// cumulative bucket counts never decrease and the +Inf bucket equals the sample count. A histogram
// whose parts disagree was never a value of the histogram.
func c11HistogramCoherent(name, body string) string {
	if name == "graphite" {
		// <prefix>.bin_<max> <n> <ts> ... <prefix>.count <n> <ts>
		bins := map[string]uint64{}
		for _, l := range strings.Split(body, "\n") {
			f := strings.Fields(l)
			if len(f) != 3 {
				continue
			}
			if i := strings.LastIndex(f[0], ".bin_"); i >= 0 {
				n, _ := strconv.ParseUint(f[1], 10, 64)
				bins[f[0][:i]] += n
			}
		}
		for _, l := range strings.Split(body, "\n") {
			f := strings.Fields(l)
			if len(f) == 3 && strings.HasSuffix(f[0], ".count") {
				pre := strings.TrimSuffix(f[0], ".count")
				n, _ := strconv.ParseUint(f[1], 10, 64)
				if b, ok := bins[pre]; ok && b != n {
					return fmt.Sprintf("graphite export: histogram %s has %d observations in its bins but a count of %d: the histogram never had that value", pre, b, n)
				}
			}
		}
		return ""
	}
	if name != "prometheus" {
		return ""
	}
	inf := map[string]float64{}
	prev := map[string]float64{}
	for _, l := range strings.Split(body, "\n") {
		if m := c11BucketRe.FindStringSubmatch(l); m != nil {
			v, _ := strconv.ParseFloat(m[3], 64)
			key := "{" + m[1] + "}"
			if v < prev[key] {
				return fmt.Sprintf("prometheus export: cumulative bucket counts of lat%s decrease at le=%s (%v after %v)", key, m[2], v, prev[key])
			}
			prev[key] = v
			if m[2] == "+Inf" {
				inf[key] = v
			}
		}
	}
	for _, l := range strings.Split(body, "\n") {
		if m := c11CountRe.FindStringSubmatch(l); m != nil {
			v, _ := strconv.ParseFloat(m[2], 64)
			key := m[1]
			if key == "" {
				key = "{}"
			}
			if iv, ok := inf[key]; ok && iv != v {
				return fmt.Sprintf("prometheus export: histogram lat%s has %v observations in its buckets but a count of %v: the histogram never had that value", key, iv, v)
			}
		}
	}
	return ""
}

// c11HistogramCoherentJSON checks the /json output: the bucket counts of a histogram datum add up to its Count.
func c11HistogramCoherentJSON(body string) string {
	var ms []struct {
		Name        string
		LabelValues []struct {
			Labels []string
			Value  struct {
				Buckets map[string]uint64
				Count   uint64
			}
		}
	}
	if json.Unmarshal([]byte(body), &ms) != nil {
		return ""
	}
	for _, m := range ms {
		for _, lv := range m.LabelValues {
			if lv.Value.Buckets == nil {
				continue
			}
			var sum uint64
			for _, c := range lv.Value.Buckets {
				sum += c
			}
			if sum != lv.Value.Count {
				return fmt.Sprintf("json export: histogram %s%v has %d observations in its buckets but a Count of %d: the histogram never had that value", m.Name, lv.Labels, sum, lv.Value.Count)
			}
		}
	}
	return ""
}
