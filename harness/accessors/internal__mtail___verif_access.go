//go:build verif

package mtail

import "github.com/google/mtail/internal/runtime"

// VerifRuntime exposes the server's program loader to the simulation harness
// (generated, add-only; only present in the scratch copy the checks build).
func (m *Server) VerifRuntime() *runtime.Runtime { return m.r }
