//go:build go1.23

//go:debug asynctimerchan=0
package verifsim

import (
	"bufio"
	"encoding/json"
	"fmt"
	"os"
	"os/signal"
	"runtime"
	"strconv"
	"strings"
	"sync/atomic"
	"syscall"
	"testing"
	"testing/synctest"
	"time"

	"github.com/google/mtail/internal/simrt"
)

// progress is bumped at the start of every run; the watchdog (real time,
// outside any bubble) aborts the process if it stops moving.
var progress atomic.Int64
var currentRun atomic.Value // string

func watchdog(limit time.Duration) {
	last := progress.Load()
	since := time.Now()
	for {
		time.Sleep(500 * time.Millisecond)
		if p := progress.Load(); p != last {
			last, since = p, time.Now()
			continue
		}
		if time.Since(since) > limit {
			buf := make([]byte, 1<<22)
			n := runtime.Stack(buf, true)
			fmt.Fprintf(os.Stderr, "WATCHDOG: run %v made no progress for %v\n%s\n", currentRun.Load(), limit, buf[:n])
			os.Exit(3)
		}
	}
}

type replayFile struct {
	BySeed   bool             `json:"by_seed,omitempty"` // replay the seed's own PRNG streams (no tapes): used for runs that crash the process
	Property string           `json:"property"`
	Class    string           `json:"class"`
	Seed     uint64           `json:"seed"`
	Tier     string           `json:"tier"`
	Tapes    map[string][]int `json:"tapes"`
	Msg      string           `json:"msg,omitempty"`
}

// runOne executes one simulated run in its own bubble.
func runOne(t *testing.T, prop string, seed uint64, tier string, tapes map[string][]int, trace bool) (res Result) {
	res = Result{Prop: prop, Seed: seed, OK: true, Evals: 1}
	f := props[prop]
	if f == nil {
		res.Machinery = "unknown property " + prop
		return
	}
	progress.Add(1)
	currentRun.Store(fmt.Sprintf("%s seed=%d", prop, seed))
	// the driver attributes a crash of the process to the last run that started
	fmt.Fprintf(os.Stderr, "@@RUN prop=%s seed=%d replay=%v\n", prop, seed, tapes != nil)
	wall := time.Now()
	var ch *simrt.Choices
	if tapes != nil {
		ch = simrt.NewReplay(seed, tapes)
	} else {
		ch = simrt.NewChoices(seed)
	}
	dir := mustMkdirTemp("run-")
	defer os.RemoveAll(dir)
	defer func() { res.WallUs = time.Since(wall).Microseconds() }()
	raceReports() // anything logged before this run is not its business
	defer func() {
		for _, rep := range raceReports() {
			cls, ok := raceClass(rep)
			if !ok {
				continue
			}
			if res.OK {
				res.OK = false
				res.Class = cls
				res.Msg = "the race detector reports, with only the program's own synchronisation visible to it:\n" + strings.TrimSpace(rep)
				res.Tapes = ch.Log()
			}
		}
	}()
	// The bubble runs in a goroutine of its own: when the race detector has
	// reported anything (including the harness's own unsynchronised
	// bookkeeping), testing fails the bubble's T and synctest.Test calls
	// FailNow, which must not end the worker loop.
	bubbleDone := make(chan struct{})
	go func() {
		defer close(bubbleDone)
		defer func() {
			if r := recover(); r != nil {
				msg := fmt.Sprint(r)
				if strings.Contains(msg, "deadlock:") {
					// goroutines of the bubble were still blocked when the run ended;
					// the harness has already judged that (or not) through its own oracle.
					if res.Extra == nil {
						res.Extra = map[string]any{}
					}
					res.Extra["bubble_end"] = msg
					return
				}
				buf := make([]byte, 16384)
				n := runtime.Stack(buf, false)
				res.Machinery = "panic in harness: " + msg + "\n" + string(buf[:n])
			}
		}()
		runBubble(t, f, ch, &res, tier, dir, trace)
	}()
	<-bubbleDone
	return
}

func runBubble(t *testing.T, f PropFunc, ch *simrt.Choices, resp *Result, tier, dir string, trace bool) {
	synctest.Test(t, func(t *testing.T) {
		res := resp
		s := simrt.New(ch)
		s.TraceOn = trace
		s.Install()
		defer s.Uninstall()
		e := &Env{T: t, S: s, C: ch, R: res, Tier: tier, Dir: dir, start: time.Now(), ev: &fnvLog{}, Knob: map[string]int{}}
		shortReadEnv = nil
		simrt.ResetPools()
		func() {
			defer func() {
				if r := recover(); r != nil {
					buf := make([]byte, 16384)
					n := runtime.Stack(buf, false)
					e.Broken("panic on controller: %v\n%s", r, buf[:n])
				}
			}()
			f(e)
		}()
		res.Steps = s.Steps
		res.SimNs = int64(time.Since(e.start))
		res.Sig = strconv.FormatUint(s.Signature(), 16)
		res.Pairs = s.Pairs()
		sp, _ := s.Counts()
		res.Tasks = sp
		res.Decisions = ch.Total()
		if len(s.Nondet) > 0 {
			e.Broken("nondeterminism: %s", strings.Join(s.Nondet, "; "))
		}
		for _, p := range s.Panics {
			e.Fail("panic", "%s", p)
		}
		e.Event("end steps=%d sig=%s ok=%v class=%s", res.Steps, res.Sig, res.OK, res.Class)
		res.TraceHash = strconv.FormatUint(e.ev.h, 16)
		if trace {
			if res.Extra == nil {
				res.Extra = map[string]any{}
			}
			res.Extra["events"] = e.ev.buf
			res.Extra["sched"] = s.Trace
		}
		if !res.OK || res.Machinery != "" {
			res.Tapes = ch.Log()
		}
		// let whatever is still runnable finish, so the bubble can end cleanly
		s.Drain(100000)
	})
}

// warmup executes one throw-away run so that process-wide one-time effects
// inside mtail (sync.Once bodies, lazily initialised package state) have
// happened before any measured run: otherwise the first run of a process
// would pass through yield points that later runs never see, and a seed
// would not mean the same execution in every process.
func warmup(t *testing.T, prop, tier string) {
	if os.Getenv("VERIF_WARMUP") == "0" || simrt.RaceBuild {
		// (race builds: the detector reports each race once per process; a
		// warm-up run would swallow the report of the run that matters. The
		// only race-built harness, C11, does not go through mtail.New.)
		return
	}
	old := os.Getenv("VERIF_AVOID")
	os.Setenv("VERIF_AVOID", "")
	runOne(t, prop, 0x5eed, tier, nil, false)
	if prop == "C12" {
		// C12 picks its exporter family from the seed; the HTTP-server family goes through mtail.New and
		// net/http, which have one-time effects of their own: warm that path up as well (0x5ef1 % 6 == 5)
		runOne(t, prop, 0x5ef1, tier, nil, false)
	}
	os.Setenv("VERIF_AVOID", old)
}

// TestWorker is the entry point used by /verif/check:
//
//	VERIF_PROP      property id
//	VERIF_SEEDS     "<first>:<count>"
//	VERIF_TIER      quick|thorough
//	VERIF_OUT       output file (JSON lines)
//	VERIF_REPLAY    replay file: run exactly that (VERIF_SEEDS ignored)
//	VERIF_TRACE     1: include event log and schedule in the output
//	VERIF_STOP_AT   stop after this many violations (default 1)
func TestWorker(t *testing.T) {
	prop := os.Getenv("VERIF_PROP")
	if prop == "" {
		t.Skip("VERIF_PROP not set")
	}
	// See DESIGN §2.3: the signal machinery must be initialised outside any bubble.
	sigc := make(chan os.Signal, 1)
	signal.Notify(sigc, syscall.SIGUSR2)
	signal.Stop(sigc)
	wd := 300 * time.Second
	if v := os.Getenv("VERIF_WATCHDOG_S"); v != "" {
		n, _ := strconv.Atoi(v)
		wd = time.Duration(n) * time.Second
	}
	go watchdog(wd)

	tier := os.Getenv("VERIF_TIER")
	if tier == "" {
		tier = "quick"
	}
	out := os.Stdout
	if p := os.Getenv("VERIF_OUT"); p != "" {
		f, err := os.Create(p)
		if err != nil {
			t.Fatal(err)
		}
		defer f.Close()
		out = f
	}
	w := bufio.NewWriter(out)
	defer w.Flush()
	trace := os.Getenv("VERIF_TRACE") == "1"

	if rp := os.Getenv("VERIF_REPLAY"); rp != "" {
		b, err := os.ReadFile(rp)
		if err != nil {
			t.Fatal(err)
		}
		var rf replayFile
		if err := json.Unmarshal(b, &rf); err != nil {
			t.Fatal(err)
		}
		if rf.Tier != "" {
			tier = rf.Tier
		}
		if rf.Tapes == nil && !rf.BySeed {
			rf.Tapes = map[string][]int{}
		}
		if rf.BySeed {
			rf.Tapes = nil
		}
		warmup(t, rf.Property, tier)
		res := runOne(t, rf.Property, rf.Seed, tier, rf.Tapes, trace)
		w.Write(jsonLine(res))
		return
	}

	warmup(t, prop, tier)
	var first, count uint64
	if _, err := fmt.Sscanf(os.Getenv("VERIF_SEEDS"), "%d:%d", &first, &count); err != nil {
		t.Fatalf("VERIF_SEEDS: %v", err)
	}
	stopAt := 1
	if v := os.Getenv("VERIF_STOP_AT"); v != "" {
		stopAt, _ = strconv.Atoi(v)
	}
	var deadline time.Time
	if v := os.Getenv("VERIF_WALL_S"); v != "" {
		n, _ := strconv.Atoi(v)
		deadline = time.Now().Add(time.Duration(n) * time.Second)
	}
	bad := 0
	for i := uint64(0); i < count; i++ {
		if !deadline.IsZero() && time.Now().After(deadline) {
			break
		}
		res := runOne(t, prop, first+i, tier, nil, trace)
		w.Write(jsonLine(res))
		if !res.OK || res.Machinery != "" {
			w.Flush()
			bad++
			if bad >= stopAt {
				break
			}
		}
	}
}
