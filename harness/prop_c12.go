//go:build go1.23

package verifsim

import (
	"bytes"
	"context"
	"errors"
	"flag"
	"fmt"
	"net"
	"net/http"
	"strings"
	"time"

	"github.com/google/mtail/internal/exporter"
	"github.com/google/mtail/internal/metrics"
	"github.com/google/mtail/internal/metrics/datum"
	"github.com/google/mtail/internal/simrt"
)

// C12 — no export attempt can leave metrics locked or stall processing.
//
// SUT: the real exporters — Prometheus Collect via Exporter.Write (real
// registry Gather), PushMetrics with the collectd / graphite / statsd
// formatters into a fault-injecting connection (net.DialTimeout is redirected
// to the simulator), and the varz / graphite / JSON HTTP handlers with a
// cancellable request and a failing ResponseWriter — and the real
// EmitLabelSets helper goroutines and metric locks under the scheduler.
//
// Per run: one generated store and one exporter family; within the family the
// fault positions are ENUMERATED (every unrepresentable element position,
// every failing write k, every cancellation point), each attempt on a fresh
// copy of the store.

func init() {
	register("C12", propC12)
	// Push targets are configured by flags read in exporter.New.
	flag.Set("collectd_socketpath", "/sim/collectd.sock")
	flag.Set("graphite_host_port", "sim-graphite:2003")
	flag.Set("statsd_hostport", "sim-statsd:8125")
	simrt.DialHook = c12Dial
}

type c12MetricDesc struct {
	name  string
	kind  metrics.Kind
	typ   metrics.Type
	keys  []string
	lsets [][]string
}

type c12Store struct {
	descs []c12MetricDesc
}

func (s c12Store) String() string {
	var parts []string
	for _, d := range s.descs {
		parts = append(parts, fmt.Sprintf("%s:%v%v×%d", d.name, d.kind, d.keys, len(d.lsets)))
	}
	return strings.Join(parts, " ")
}

func (s c12Store) build(mut func(i int, d *c12MetricDesc)) (*metrics.Store, []*metrics.Metric, error) {
	st := metrics.NewStore()
	var ms []*metrics.Metric
	for i, d0 := range s.descs {
		d := d0
		d.keys = append([]string{}, d0.keys...)
		d.lsets = nil
		for _, ls := range d0.lsets {
			d.lsets = append(d.lsets, append([]string{}, ls...))
		}
		if mut != nil {
			mut(i, &d)
		}
		m := metrics.NewMetric(d.name, "prog", d.kind, d.typ, d.keys...)
		if d.typ == metrics.Buckets {
			m.Buckets = []datum.Range{{Min: 0, Max: 1}, {Min: 1, Max: 2}}
		}
		m.Source = fmt.Sprintf("prog:%d", i+1)
		if err := st.Add(m); err != nil {
			return nil, nil, err
		}
		for j, ls := range d.lsets {
			dd, err := m.GetDatum(ls...)
			if err != nil {
				return nil, nil, err
			}
			ts := time.Unix(946684800+int64(j), 0)
			switch d.typ {
			case metrics.Int:
				datum.SetInt(dd, int64(10*i+j), ts)
			case metrics.Float:
				datum.SetFloat(dd, float64(i)+float64(j)/4, ts)
			case metrics.String:
				datum.SetString(dd, fmt.Sprintf("s%d", j), ts)
			case metrics.Buckets:
				datum.Observe(dd, float64(j), ts)
			}
		}
		ms = append(ms, m)
	}
	return st, ms, nil
}

// fault plan of the simulated push connections, keyed by network
type c12ConnPlan struct {
	failAt   int  // 1-based index of the write that fails; 0 = never
	short    bool // the failing write reports a short count
	dialFail bool
}

var c12Plans = map[string]*c12ConnPlan{}
var c12Conns []*c12Conn

type c12Conn struct {
	network string
	plan    c12ConnPlan
	writes  int
	fired   bool
	buf     bytes.Buffer
	closed  bool
}

func c12Dial(network, address string, _ time.Duration) (net.Conn, error) {
	p := c12Plans[network]
	if p == nil {
		p = &c12ConnPlan{}
	}
	if p.dialFail {
		return nil, errors.New("simulated: connection refused")
	}
	c := &c12Conn{network: network, plan: *p}
	c12Conns = append(c12Conns, c)
	return c, nil
}

func (c *c12Conn) Write(p []byte) (int, error) {
	c.writes++
	if c.plan.failAt > 0 && c.writes >= c.plan.failAt {
		c.fired = true
		if c.plan.short && len(p) > 1 {
			c.buf.Write(p[:len(p)/2])
			return len(p) / 2, errors.New("simulated: write: broken pipe")
		}
		return 0, errors.New("simulated: write: broken pipe")
	}
	c.buf.Write(p)
	return len(p), nil
}
func (c *c12Conn) Read(p []byte) (int, error)       { return 0, errors.New("not readable") }
func (c *c12Conn) Close() error                     { c.closed = true; return nil }
func (c *c12Conn) LocalAddr() net.Addr              { return &net.UnixAddr{Name: "sim", Net: c.network} }
func (c *c12Conn) RemoteAddr() net.Addr             { return &net.UnixAddr{Name: "sim", Net: c.network} }
func (c *c12Conn) SetDeadline(time.Time) error      { return nil }
func (c *c12Conn) SetReadDeadline(time.Time) error  { return nil }
func (c *c12Conn) SetWriteDeadline(time.Time) error { return nil }

// fault-injecting http.ResponseWriter
type c12RW struct {
	hdr      http.Header
	writes   int
	failAt   int // Write number k and later fail
	cancelAt int // cancel the request context during Write number k
	cancel   context.CancelFunc
	buf      bytes.Buffer
	code     int
	fired    bool
}

func (w *c12RW) Header() http.Header { return w.hdr }
func (w *c12RW) WriteHeader(c int)   { w.code = c }
func (w *c12RW) Write(p []byte) (int, error) {
	w.writes++
	if w.cancelAt > 0 && w.writes == w.cancelAt {
		w.cancel()
		w.fired = true
	}
	if w.failAt > 0 && w.writes >= w.failAt {
		w.fired = true
		return 0, errors.New("simulated: write: connection reset by peer")
	}
	w.buf.Write(p)
	return len(p), nil
}

type c12Attempt struct {
	desc  string
	fault string // fault kind for the counters ("" = fault-free)
	mut   func(i int, d *c12MetricDesc)
	plan  func() // sets up connection plans / writers
	run   func(ex *exporter.Exporter) (fired bool)
}

func c12GenStore(e *Env) c12Store {
	var s c12Store
	n := 1 + e.Choose("gen", 5)
	kinds := []struct {
		k metrics.Kind
		t metrics.Type
	}{{metrics.Counter, metrics.Int}, {metrics.Gauge, metrics.Int}, {metrics.Gauge, metrics.Float}, {metrics.Timer, metrics.Int}, {metrics.Text, metrics.String}, {metrics.Histogram, metrics.Buckets}}
	for i := 0; i < n; i++ {
		kt := kinds[e.Choose("gen", len(kinds))]
		nk := e.Choose("gen", 3)
		d := c12MetricDesc{name: fmt.Sprintf("m%d", i), kind: kt.k, typ: kt.t, keys: []string{"ka", "kb"}[:nk]}
		nl := e.Choose("gen", 5)
		if nk == 0 && nl > 1 {
			nl = 1
		}
		for j := 0; j < nl; j++ {
			d.lsets = append(d.lsets, []string{fmt.Sprintf("v%d", j), "w"}[:nk])
		}
		s.descs = append(s.descs, d)
	}
	return s
}

var c12Families = []string{"prometheus", "push", "varz", "graphite-http", "json", "http-server"}

func propC12(e *Env) {
	family := c12Families[int(e.R.Seed%uint64(len(c12Families)))]
	if family == "http-server" {
		c12HTTP(e)
		return
	}
	st := c12GenStore(e)
	omitProg := e.Choose("knob", 3) == 1
	emitTS := e.Bool("knob")
	e.S.StmtPreempt = e.Choose("knob", 4) == 1
	var attempts []c12Attempt
	exportable := func(d c12MetricDesc) bool { return d.kind != metrics.Text }
	switch family {
	case "prometheus":
		run := func(ex *exporter.Exporter) bool {
			var b bytes.Buffer
			ex.Write(&b)
			return true
		}
		attempts = append(attempts, c12Attempt{desc: "prometheus fault-free", run: run})
		for i, d := range st.descs {
			if !exportable(d) {
				continue
			}
			i := i
			attempts = append(attempts, c12Attempt{desc: fmt.Sprintf("prometheus, metric %d (%s, %d label sets) exported under the invalid name \"bad name\"", i, d.name, len(d.lsets)), fault: "invalid_metric_name",
				mut: func(k int, dd *c12MetricDesc) {
					if k == i {
						dd.name = "bad name"
					}
				}, run: run})
			if len(d.keys) > 0 && !omitProg {
				attempts = append(attempts, c12Attempt{desc: fmt.Sprintf("prometheus, metric %d (%s) has a key named prog (duplicate label name)", i, d.name), fault: "duplicate_label_name",
					mut: func(k int, dd *c12MetricDesc) {
						if k == i {
							dd.keys[0] = "prog"
						}
					}, run: run})
			}
			if len(d.keys) > 0 {
				for j := range d.lsets {
					j := j
					attempts = append(attempts, c12Attempt{desc: fmt.Sprintf("prometheus, metric %d (%s) label set %d of %d holds a non-UTF-8 value", i, d.name, j, len(d.lsets)), fault: "non_utf8_label_value",
						mut: func(k int, dd *c12MetricDesc) {
							if k == i {
								dd.lsets[j][0] = "bad\xff"
							}
						}, run: run})
				}
			}
		}
	case "push":
		nets := []string{"unix", "tcp", "udp"} // collectd, graphite, statsd (order of registration)
		names := map[string]string{"unix": "collectd", "tcp": "graphite", "udp": "statsd"}
		push := func(ex *exporter.Exporter) bool {
			c12Conns = nil
			ex.PushMetrics()
			fired := false
			for _, c := range c12Conns {
				if c.fired {
					fired = true
				}
			}
			return fired
		}
		attempts = append(attempts, c12Attempt{desc: "push fault-free", plan: func() { c12Plans = map[string]*c12ConnPlan{} }, run: push})
		// number of writes per target in the fault-free case = exportable label sets
		w := 0
		for _, d := range st.descs {
			if exportable(d) {
				w += len(d.lsets)
			}
		}
		for _, nw := range nets {
			nw := nw
			for k := 1; k <= w; k++ {
				k := k
				for _, short := range []bool{false, true} {
					short := short
					attempts = append(attempts, c12Attempt{desc: fmt.Sprintf("push to %s, write %d of %d fails (short=%v)", names[nw], k, w, short), fault: "push_write_error",
						plan: func() { c12Plans = map[string]*c12ConnPlan{nw: {failAt: k, short: short}} }, run: push})
				}
			}
			attempts = append(attempts, c12Attempt{desc: fmt.Sprintf("push to %s, dial fails", names[nw]), fault: "push_dial_error",
				plan: func() { c12Plans = map[string]*c12ConnPlan{nw: {dialFail: true}} }, run: func(ex *exporter.Exporter) bool { push(ex); return true }})
		}
	case "varz", "graphite-http", "json":
		handler := func(ex *exporter.Exporter) func(http.ResponseWriter, *http.Request) {
			switch family {
			case "varz":
				return ex.HandleVarz
			case "graphite-http":
				return ex.HandleGraphite
			}
			return ex.HandleJSON
		}
		mk := func(failAt, cancelAt int, pre bool) func(ex *exporter.Exporter) bool {
			return func(ex *exporter.Exporter) bool {
				ctx, cancel := context.WithCancel(context.Background())
				defer cancel()
				rw := &c12RW{hdr: http.Header{}, failAt: failAt, cancelAt: cancelAt, cancel: cancel}
				req, _ := http.NewRequestWithContext(ctx, "GET", "/"+family, nil)
				if pre {
					cancel()
				}
				handler(ex)(rw, req)
				return rw.fired || pre
			}
		}
		attempts = append(attempts, c12Attempt{desc: family + " handler fault-free", run: mk(0, 0, false)})
		attempts = append(attempts, c12Attempt{desc: family + " handler, request already cancelled", fault: "request_cancelled", run: mk(0, 0, true)})
		w := 0
		for _, d := range st.descs {
			w += len(d.lsets)
		}
		if family == "json" {
			w = 1
		}
		for k := 1; k <= w; k++ {
			attempts = append(attempts, c12Attempt{desc: fmt.Sprintf("%s handler, client goes away during write %d of %d (request cancelled)", family, k, w), fault: "request_cancelled", run: mk(0, k, false)})
			attempts = append(attempts, c12Attempt{desc: fmt.Sprintf("%s handler, ResponseWriter fails from write %d of %d", family, k, w), fault: "response_write_error", run: mk(k, 0, false)})
		}
	}

	fired := 0
	for ai, at := range attempts {
		if e.Failed() || e.S.OverBudget() {
			break
		}
		if !c12RunAttempt(e, family, st, at, omitProg, emitTS) {
			break
		}
		if at.fault != "" {
			fired++
		}
		e.Event("attempt %d %s ok", ai, at.desc)
	}
	e.R.Evals = len(attempts)
	e.R.Distinct = fired
	e.R.Nontrivial = fired > 0
	e.R.Key = fmt.Sprintf("%s|%s|%v|%v|%x", family, st.String(), omitProg, emitTS, e.S.Signature())
	e.R.Sample = map[string]any{"family": family, "store": st.String(), "attempts": len(attempts), "omit_prog_label": omitProg, "emit_timestamp": emitTS,
		"example_attempt": attempts[len(attempts)-1].desc}
}

// c12RunAttempt performs one export attempt on a fresh store and applies the oracle.
func c12RunAttempt(e *Env, family string, st c12Store, at c12Attempt, omitProg, emitTS bool) bool {
	store, ms, err := st.build(at.mut)
	if err != nil {
		e.Broken("building the store: %v", err)
		return false
	}
	c12Plans = map[string]*c12ConnPlan{}
	if at.plan != nil {
		at.plan()
	}
	ctx, cancel := context.WithCancel(context.Background())
	opts := []exporter.Option{exporter.Hostname("simhost")}
	if omitProg {
		opts = append(opts, exporter.OmitProgLabel())
	}
	if emitTS {
		opts = append(opts, exporter.EmitTimestamp())
	}
	var ex *exporter.Exporter
	var nerr error
	e.S.Go("exporter.New", func() { ex, nerr = exporter.New(ctx, store, opts...) })
	e.S.Run(100000)
	if ex == nil || nerr != nil {
		e.Broken("exporter.New: %v", nerr)
		cancel()
		return false
	}
	before := map[int]bool{}
	for _, t := range e.S.Live() {
		before[t.ID] = true
	}
	stopped := func() {
		cancel()
		e.S.Go("exporter.Stop", func() { ex.Stop() })
		e.S.Run(100000)
	}
	// the attempt — in one run of two with a program updating the metrics at the same time
	attemptDone := false
	faultFired := false
	if e.Choose("gen", 2) == 1 {
		e.S.Go("updater", func() {
			for i, m := range ms {
				// what a program does on a line: update a datum that exists (whatever its type) ...
				m.RLock()
				var first datum.Datum
				if len(m.LabelValues) > 0 {
					first = m.LabelValues[0].Value
				}
				m.RUnlock()
				switch d := first.(type) {
				case *datum.Int:
					d.IncBy(1, time.Time{})
				case *datum.Float:
					d.Set(1.5, time.Time{})
				case *datum.String:
					d.Set("updated", time.Time{})
				case *datum.Buckets:
					d.Observe(1.5, time.Time{})
				}
				simrt.HYield()
				// ... and create one that does not
				tuple := make([]string, len(m.Keys))
				for k := range tuple {
					tuple[k] = fmt.Sprintf("u%d", i)
				}
				d, err := m.GetDatum(tuple...)
				if err == nil && m.Type == metrics.Int {
					datum.IncIntBy(d, 1, time.Time{})
				}
				simrt.HYield()
			}
		})
		e.Probe("update_during_attempt")
	}
	e.S.Go("export", func() { faultFired = at.run(ex); attemptDone = true })
	quiet := e.S.Run(400000)
	if at.fault != "" && attemptDone {
		if faultFired {
			e.Fault(at.fault)
		}
	}
	cls := func(sym string) string { return family + ":" + sym }
	if !quiet {
		e.Fail(cls("export-does-not-finish"), "%s on store [%s]: the system did not become quiescent", at.desc, st.String())
		return false
	}
	if !attemptDone {
		e.Fail(cls("export-blocked"), "%s on store [%s]: the export call itself never returned; live: %s", at.desc, st.String(), liveString(e))
		return false
	}
	// (2) no helper goroutine is left
	var left []string
	for _, t := range e.S.Live() {
		if !before[t.ID] {
			left = append(left, fmt.Sprintf("%s spawned at %s", t.Name, t.Spawn))
		}
	}
	// (1) every metric can be write-locked
	probeAt := -1
	probeDone := false
	e.S.Go("probe", func() {
		for i, m := range ms {
			probeAt = i
			tuple := make([]string, len(m.Keys))
			for k := range tuple {
				tuple[k] = "probe"
			}
			d, err := m.GetDatum(tuple...)
			if err == nil && m.Type == metrics.Int {
				datum.IncIntBy(d, 1, time.Time{})
			}
		}
		probeDone = true
	})
	e.S.Run(400000)
	if !probeDone {
		name := "?"
		if probeAt >= 0 {
			name = st.descs[probeAt].name
		}
		e.Fail(cls("metric-left-rlocked"), "%s on store [%s]: afterwards a writer (what a program does on its next line) blocks forever on metric %d (%s); goroutines left: %v",
			at.desc, st.String(), probeAt, name, left)
		return false
	}
	// (1b) the store itself is unlocked: a registration (what a program load does), a lookup and a
	// removal complete. The probe metric is hidden and removed again, so the next export is unchanged.
	regDone := false
	e.S.Go("probe-register", func() {
		pm := metrics.NewMetric("c12_probe_registration", "c12probe", metrics.Counter, metrics.Int)
		pm.Hidden = true
		if err := store.Add(pm); err == nil {
			store.FindMetricOrNil("c12_probe_registration", "c12probe")
			store.Remove(pm)
		}
		regDone = true
	})
	e.S.Run(400000)
	if !regDone {
		e.Fail(cls("store-left-locked"), "%s on store [%s]: afterwards registering a metric (what a program load does) blocks forever: the store was left locked; live: %s",
			at.desc, st.String(), liveString(e))
		return false
	}
	if len(left) > 0 {
		e.Fail(cls("helper-goroutine-blocked"), "%s on store [%s]: goroutines started by the attempt are still blocked: %v", at.desc, st.String(), left)
		return false
	}
	// (3) a following fault-free export of the same family completes
	c12Plans = map[string]*c12ConnPlan{}
	againDone := false
	e.S.Go("export-again", func() {
		switch family {
		case "prometheus":
			var b bytes.Buffer
			ex.Write(&b)
		case "push":
			ex.PushMetrics()
		default:
			rw := &c12RW{hdr: http.Header{}}
			req, _ := http.NewRequest("GET", "/", nil)
			switch family {
			case "varz":
				ex.HandleVarz(rw, req)
			case "graphite-http":
				ex.HandleGraphite(rw, req)
			default:
				ex.HandleJSON(rw, req)
			}
		}
		againDone = true
	})
	e.S.Run(400000)
	if !againDone {
		e.Fail(cls("next-export-stalls"), "%s on store [%s]: the next export never finishes; live: %s", at.desc, st.String(), liveString(e))
		return false
	}
	stopped()
	if live := e.S.Live(); len(live) > 0 {
		e.Fail(cls("helper-goroutine-blocked"), "%s on store [%s]: tasks alive after Exporter.Stop: %s", at.desc, st.String(), liveString(e))
		return false
	}
	return true
}
