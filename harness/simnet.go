//go:build go1.23

package verifsim

import (
	"errors"
	"io"
	"net"
	"os"
	"sync"
	"time"

	"github.com/google/mtail/internal/simrt"
)

// simnet is the in-memory transport that replaces net.Listen / ListenPacket in
// the instrumented tree (real sockets cannot live in a synctest bubble). It
// honours the parts of the net contracts mtail's stream code relies on:
//   - Accept / Read block until a connection / data / EOF / Close / deadline;
//   - a read deadline that has passed fails the read immediately, even with
//     data buffered (internal/poll checks the deadline before reading);
//   - reads may be short (size drawn from the run's choices);
//   - EOF is returned after the peer closed and the buffer was drained;
//   - Close unblocks Accept/Read with "use of closed network connection".
//
// All blocking is on bubble channels, so it is "durable" for synctest.

type simNet struct {
	e     *Env
	mu    sync.Mutex
	lis   map[string]*simListener
	pcs   map[string]*simPacketConn
	conns int

	outCap int // send-buffer size of new stream connections; 0 = the client reads infinitely fast
}

var curNet *simNet

func installSimNet(e *Env) *simNet {
	n := &simNet{e: e, lis: map[string]*simListener{}, pcs: map[string]*simPacketConn{}}
	curNet = n
	simrt.ListenHook = func(network, address string) (net.Listener, error) { return curNet.listen(network, address) }
	simrt.ListenPacketHook = func(network, address string) (net.PacketConn, error) { return curNet.listenPacket(network, address) }
	return n
}

type simAddr struct{ network, addr string }

func (a simAddr) Network() string { return a.network }
func (a simAddr) String() string  { return a.addr }

var errNetClosed = errors.New("use of closed network connection")

type timeoutError struct{}

func (timeoutError) Error() string   { return "i/o timeout" }
func (timeoutError) Timeout() bool   { return true }
func (timeoutError) Temporary() bool { return true }
func (timeoutError) Is(err error) bool {
	return err == os.ErrDeadlineExceeded
}

// ---- stream sockets ---------------------------------------------------------

type simListener struct {
	n      *simNet
	addr   simAddr
	ch     chan *simConn
	closed chan struct{}
	once   sync.Once
}

func (n *simNet) listen(network, address string) (net.Listener, error) {
	n.mu.Lock()
	defer n.mu.Unlock()
	k := network + "|" + address
	if _, ok := n.lis[k]; ok {
		return nil, errors.New("listen " + network + " " + address + ": address already in use")
	}
	l := &simListener{n: n, addr: simAddr{network, address}, ch: make(chan *simConn, 64), closed: make(chan struct{})}
	n.lis[k] = l
	return l, nil
}

func (l *simListener) Accept() (net.Conn, error) {
	// a closed listener never hands out connections, even queued ones
	select {
	case <-l.closed:
		return nil, &net.OpError{Op: "accept", Net: l.addr.network, Err: errNetClosed}
	default:
	}
	select {
	case c := <-l.ch:
		return c, nil
	case <-l.closed:
		return nil, &net.OpError{Op: "accept", Net: l.addr.network, Err: errNetClosed}
	}
}

func (l *simListener) Close() error {
	l.once.Do(func() {
		close(l.closed)
		l.n.mu.Lock()
		delete(l.n.lis, l.addr.network+"|"+l.addr.addr)
		l.n.mu.Unlock()
	})
	return nil
}

func (l *simListener) Addr() net.Addr { return l.addr }

// dial is the harness (client) side: it returns the writing end.
func (n *simNet) dial(network, address string) (*simConn, error) {
	n.mu.Lock()
	l := n.lis[network+"|"+address]
	n.conns++
	id := n.conns
	n.mu.Unlock()
	if l == nil {
		return nil, errors.New("dial " + network + " " + address + ": connection refused")
	}
	c := &simConn{n: n, id: id, wake: make(chan struct{}), local: l.addr, remote: simAddr{network, "client"}, outCap: n.outCap}
	select {
	case <-l.closed:
		return nil, errors.New("dial " + network + " " + address + ": connection refused")
	default:
	}
	select {
	case l.ch <- c: // the accept backlog
		return c, nil
	default:
		return nil, errors.New("dial " + network + " " + address + ": backlog full")
	}
}

// simConn is one direction of a stream connection: the client writes with
// clientWrite / clientClose, the server (mtail) reads through net.Conn.
type simConn struct {
	n        *simNet
	id       int
	mu       sync.Mutex
	buf      []byte
	eof      bool // client closed
	closed   bool // server closed
	deadline time.Time
	wake     chan struct{}
	local    simAddr
	remote   simAddr
	ReadN    int // bytes handed to the server

	out       []byte // server-to-client bytes not yet read by the client (only with outCap > 0)
	outCap    int
	wdeadline time.Time
	WroteN    int
}

func (c *simConn) broadcast() {
	close(c.wake)
	c.wake = make(chan struct{})
}

func (c *simConn) clientWrite(b []byte) error {
	c.mu.Lock()
	defer c.mu.Unlock()
	if c.closed {
		return errors.New("write: broken pipe")
	}
	c.buf = append(c.buf, b...)
	c.broadcast()
	return nil
}

func (c *simConn) clientClose() {
	c.mu.Lock()
	defer c.mu.Unlock()
	c.eof = true
	c.broadcast()
}

func (c *simConn) Read(p []byte) (int, error) {
	for {
		c.mu.Lock()
		if c.closed {
			c.mu.Unlock()
			return 0, &net.OpError{Op: "read", Net: c.local.network, Err: errNetClosed}
		}
		if !c.deadline.IsZero() && !time.Now().Before(c.deadline) {
			c.mu.Unlock()
			return 0, &net.OpError{Op: "read", Net: c.local.network, Err: timeoutError{}}
		}
		if len(c.buf) > 0 {
			max := len(c.buf)
			if len(p) < max {
				max = len(p)
			}
			n := max
			if max > 1 && c.n.e != nil && c.n.e.Choose("io", 3) == 0 {
				n = 1 + c.n.e.Choose("io", max)
				if n < max {
					c.n.e.Fault("short_read")
				}
			}
			copy(p, c.buf[:n])
			c.buf = c.buf[n:]
			c.ReadN += n
			c.mu.Unlock()
			return n, nil
		}
		if c.eof {
			c.mu.Unlock()
			return 0, io.EOF
		}
		w := c.wake
		dl := c.deadline
		c.mu.Unlock()
		if dl.IsZero() {
			<-w
		} else {
			t := time.NewTimer(time.Until(dl))
			select {
			case <-w:
			case <-t.C:
			}
			t.Stop()
		}
	}
}

// Write is the server-to-client direction. With outCap == 0 (every harness but the HTTP scenario of C12) the
// client is an infinitely fast reader: the bytes are dropped. With outCap > 0 the connection has a send
// buffer of that size, drained only by clientRead; a write that finds it full blocks until there is room,
// the connection is closed, or the write deadline passes (fake clock).
func (c *simConn) Write(p []byte) (int, error) {
	if c.outCap == 0 {
		return len(p), nil
	}
	written := 0
	for {
		c.mu.Lock()
		if c.closed {
			c.mu.Unlock()
			return written, &net.OpError{Op: "write", Net: c.local.network, Err: errNetClosed}
		}
		if !c.wdeadline.IsZero() && !time.Now().Before(c.wdeadline) {
			c.mu.Unlock()
			return written, &net.OpError{Op: "write", Net: c.local.network, Err: timeoutError{}}
		}
		if room := c.outCap - len(c.out); room > 0 {
			n := len(p) - written
			if n > room {
				n = room
			}
			c.out = append(c.out, p[written:written+n]...)
			written += n
			c.WroteN += n
			if written == len(p) {
				c.broadcast()
				c.mu.Unlock()
				return written, nil
			}
		}
		w := c.wake
		dl := c.wdeadline
		c.mu.Unlock()
		if dl.IsZero() {
			<-w
		} else {
			t := time.NewTimer(time.Until(dl))
			select {
			case <-w:
			case <-t.C:
			}
			t.Stop()
		}
	}
}

// clientRead takes up to max bytes out of the send buffer (the client reads from its socket).
func (c *simConn) clientRead(max int) []byte {
	c.mu.Lock()
	defer c.mu.Unlock()
	if max > len(c.out) {
		max = len(c.out)
	}
	b := append([]byte{}, c.out[:max]...)
	c.out = c.out[max:]
	c.broadcast()
	return b
}

func (c *simConn) Close() error {
	c.mu.Lock()
	defer c.mu.Unlock()
	if c.closed {
		return &net.OpError{Op: "close", Net: c.local.network, Err: errNetClosed}
	}
	c.closed = true
	c.broadcast()
	return nil
}

func (c *simConn) LocalAddr() net.Addr  { return c.local }
func (c *simConn) RemoteAddr() net.Addr { return c.remote }
func (c *simConn) SetDeadline(t time.Time) error {
	c.SetWriteDeadline(t)
	return c.SetReadDeadline(t)
}
func (c *simConn) SetReadDeadline(t time.Time) error {
	c.mu.Lock()
	defer c.mu.Unlock()
	if c.closed {
		return &net.OpError{Op: "set", Net: c.local.network, Err: errNetClosed}
	}
	c.deadline = t
	c.broadcast()
	return nil
}
func (c *simConn) SetWriteDeadline(t time.Time) error {
	c.mu.Lock()
	defer c.mu.Unlock()
	if c.closed {
		return &net.OpError{Op: "set", Net: c.local.network, Err: errNetClosed}
	}
	c.wdeadline = t
	c.broadcast()
	return nil
}

// ---- datagram sockets -------------------------------------------------------

type simPacketConn struct {
	n        *simNet
	addr     simAddr
	mu       sync.Mutex
	q        [][]byte
	closed   bool
	deadline time.Time
	wake     chan struct{}
}

func (n *simNet) listenPacket(network, address string) (net.PacketConn, error) {
	n.mu.Lock()
	defer n.mu.Unlock()
	k := network + "|" + address
	if _, ok := n.pcs[k]; ok {
		return nil, errors.New("listen " + network + " " + address + ": address already in use")
	}
	c := &simPacketConn{n: n, addr: simAddr{network, address}, wake: make(chan struct{})}
	n.pcs[k] = c
	return c, nil
}

// sendTo is the harness side.
func (n *simNet) sendTo(network, address string, b []byte) bool {
	n.mu.Lock()
	c := n.pcs[network+"|"+address]
	n.mu.Unlock()
	if c == nil {
		return false
	}
	c.mu.Lock()
	defer c.mu.Unlock()
	if c.closed {
		return false
	}
	c.q = append(c.q, append([]byte{}, b...))
	close(c.wake)
	c.wake = make(chan struct{})
	return true
}

func (c *simPacketConn) ReadFrom(p []byte) (int, net.Addr, error) {
	for {
		c.mu.Lock()
		if c.closed {
			c.mu.Unlock()
			return 0, nil, &net.OpError{Op: "read", Net: c.addr.network, Err: errNetClosed}
		}
		if !c.deadline.IsZero() && !time.Now().Before(c.deadline) {
			c.mu.Unlock()
			return 0, nil, &net.OpError{Op: "read", Net: c.addr.network, Err: timeoutError{}}
		}
		if len(c.q) > 0 {
			d := c.q[0]
			c.q = c.q[1:]
			n := copy(p, d) // a datagram longer than the buffer is truncated
			c.mu.Unlock()
			return n, simAddr{c.addr.network, "client"}, nil
		}
		w := c.wake
		dl := c.deadline
		c.mu.Unlock()
		if dl.IsZero() {
			<-w
		} else {
			t := time.NewTimer(time.Until(dl))
			select {
			case <-w:
			case <-t.C:
			}
			t.Stop()
		}
	}
}

func (c *simPacketConn) WriteTo(p []byte, _ net.Addr) (int, error) { return len(p), nil }
func (c *simPacketConn) Close() error {
	c.mu.Lock()
	defer c.mu.Unlock()
	if c.closed {
		return &net.OpError{Op: "close", Net: c.addr.network, Err: errNetClosed}
	}
	c.closed = true
	close(c.wake)
	c.wake = make(chan struct{})
	c.n.mu.Lock()
	delete(c.n.pcs, c.addr.network+"|"+c.addr.addr)
	c.n.mu.Unlock()
	return nil
}
func (c *simPacketConn) LocalAddr() net.Addr { return c.addr }
func (c *simPacketConn) SetDeadline(t time.Time) error {
	return c.SetReadDeadline(t)
}
func (c *simPacketConn) SetReadDeadline(t time.Time) error {
	c.mu.Lock()
	defer c.mu.Unlock()
	c.deadline = t
	close(c.wake)
	c.wake = make(chan struct{})
	return nil
}
func (c *simPacketConn) SetWriteDeadline(time.Time) error { return nil }
