//go:build go1.23

package verifsim

import (
	"context"
	"fmt"
	"os"
	"path/filepath"
	"sort"
	"strings"
	"time"

	"github.com/google/mtail/internal/metrics"
	"github.com/google/mtail/internal/mtail"
	"github.com/google/mtail/internal/simrt"
	"github.com/google/mtail/internal/waker"
)

// C25 — self-monitoring counters are exact.
//
// SUT: the whole real mtail.Server (tailer + streams + runtime + VMs + store
// + exporter), pollers on simulated wakers, under the seeded scheduler. The
// expvar counters are read as deltas over the run and compared with events
// the harness witnesses independently: lines appended to the logs (and a
// witness program that counts every line and every line per file), runtime
// errors predicted by a harness predicate on the line, and load / unload /
// load-error events classified by construction.

func init() { register("C25", propC25) }

const c25Witness = "counter n\ncounter perfile by f\n/$/ {\n  n++\n  perfile[getfilename()]++\n}\n"

// errp raises a runtime error exactly for lines "<k> <w>" whose word w is not a
// base-10 integer (version v only differs in a comment).
func c25Errp(v int) string {
	return fmt.Sprintf("# v%d\ncounter sum\n/^\\d+ (?P<w>\\w+)$/ {\n  sum += strtol($w, 10)\n}\n", v)
}

// divp raises a runtime error for lines whose first number is 0.
func c25Divp(v int) string {
	return fmt.Sprintf("# v%d\ngauge r\n/^(?P<k>\\d+) / {\n  r = 100 / $k\n}\n", v)
}

func c25Broken() string { return "counter sum\n/x/ {\n  sum++\n" }

// conflicts in kind with the witness's counter n, after declaring another metric
func c25Conflict() string { return "counter ok_metric\ngauge n\n/./ {\n  ok_metric++\n  n = 1\n}\n" }

// two declarations exported under one name with different kinds: refused while its own metrics are being registered
func c25SelfConflict() string {
	return "counter a as \"dup_name\"\ngauge b as \"dup_name\"\n/./ {\n  a++\n  b = 1\n}\n"
}

func c25IsNumber(w string) bool {
	if w == "" {
		return false
	}
	for _, c := range w {
		if c < '0' || c > '9' {
			return false
		}
	}
	return true
}

func propC25(e *Env) {
	e.S.StmtPreempt = e.Choose("knob", 4) == 1
	progs := filepath.Join(e.Dir, "progs")
	logs := filepath.Join(e.Dir, "logs")
	os.Mkdir(progs, 0o755)
	os.Mkdir(logs, 0o755)
	os.WriteFile(filepath.Join(progs, "aaa_witness.mtail"), []byte(c25Witness), 0o644)
	names := []string{"errp.mtail", "divp.mtail"}
	// model of the program directory
	type pstate struct {
		kind    string // errp | divp | broken | conflict
		running string // kind of the running version ("" none)
		version int
		onDisk  bool
	}
	ps := map[string]*pstate{}
	want := map[string]progCounters{}
	for _, n := range names {
		ps[n] = &pstate{}
	}
	verCounter := 0
	writeProg := func(n, kind string) {
		verCounter++
		src := map[string]func() string{
			"errp": func() string { return c25Errp(verCounter) }, "divp": func() string { return c25Divp(verCounter) },
			"broken": c25Broken, "conflict": c25Conflict, "selfconflict": c25SelfConflict,
		}[kind]()
		pp := filepath.Join(progs, n)
		if fi, err := os.Lstat(pp); err == nil && fi.Mode()&os.ModeSymlink != 0 {
			os.Remove(pp)
		}
		os.WriteFile(pp, []byte(src), 0o644)
		ps[n].kind, ps[n].onDisk, ps[n].version = kind, true, verCounter
	}
	loadedVersion := map[string]int{}
	scan := func() { // what one LoadAllPrograms does, by construction
		for _, n := range names {
			s := ps[n]
			w := want[n]
			switch {
			case !s.onDisk:
				if s.running != "" {
					s.running = ""
					delete(loadedVersion, n)
					w.unloads++
				}
			case s.kind == "broken" || s.kind == "conflict" || s.kind == "selfconflict" || s.kind == "dangling":
				w.loadErrs++
			default:
				if s.running == "" || loadedVersion[n] != s.version {
					s.running = s.kind
					loadedVersion[n] = s.version
					w.loads++
				}
			}
			want[n] = w
		}
	}
	if e.Bool("gen") {
		writeProg("errp.mtail", "errp")
	}
	if e.Bool("gen") {
		writeProg("divp.mtail", []string{"divp", "broken", "conflict"}[e.Choose("gen", 3)])
	}
	nlogs := 1 + e.Choose("gen", 2)
	var paths []string
	for i := 0; i < nlogs; i++ {
		p := filepath.Join(logs, fmt.Sprintf("l%d.log", i))
		mustWrite(p, "", os.O_CREATE|os.O_WRONLY)
		paths = append(paths, p)
	}
	all := append([]string{"aaa_witness.mtail"}, names...)
	base := map[string]progCounters{}
	for _, n := range all {
		base[n] = snapProg(n)
	}
	baseLines := expvarInt("lines_total")
	baseLogLines := map[string]int64{}
	for _, p := range paths {
		baseLogLines[p] = expvarMapInt("log_lines_total", p)
	}
	baseLogCount := logCountVar()

	store := metrics.NewStore()
	ctx, cancel := context.WithCancel(context.Background())
	defer cancel()
	// one run in three also tails a stream socket (in-memory transport): several connections share one log name
	snet := installSimNet(e)
	resetFifoGates()
	enableShortReads(e)
	sockSource := ""
	patterns := []string{filepath.Join(logs, "*.log")}
	if e.Choose("gen", 3) == 0 {
		sockSource = fmt.Sprintf("unix:///sim/c25-%d.sock", e.R.Seed) // a log name this process has never counted lines for
		patterns = append(patterns, sockSource)
		baseLogLines[sockSource] = expvarMapInt("log_lines_total", sockSource)
	}
	sw, pw := NewSimWaker(), NewSimWaker()
	var swk, pwk waker.Waker = sw, pw
	if e.Choose("knob", 5) == 0 {
		// configuration variant: mtail's own timed wakers under the fake clock
		const iv = 250 * time.Millisecond
		adv := func() { e.S.Advance(iv) }
		sw.adv, pw.adv = adv, adv
		swk, pwk = waker.NewTimed(ctx, iv), waker.NewTimed(ctx, iv)
		e.Probe("real_timed_wakers")
	}
	var srv *mtail.Server
	var nerr error
	returned := false
	e.S.Go("mtail", func() {
		srv, nerr = mtail.New(ctx, store, mtail.ProgramPath(progs), mtail.LogPathPatterns(patterns...),
			mtail.LogPatternPollWaker(pwk), mtail.LogstreamPollWaker(swk))
		if nerr != nil {
			returned = true
			return
		}
		srv.Run()
		returned = true
	})
	quiesce := func() bool {
		if !e.S.Run(3000000) {
			e.Fail("not-quiescent", "server did not become quiescent; live: %s", liveString(e))
			return false
		}
		return true
	}
	observe := func() bool {
		for round := 0; round < 3; round++ {
			sw.Tick()
			if !quiesce() {
				return false
			}
			pw.Tick()
			if !quiesce() {
				return false
			}
			sw.Tick()
			if !quiesce() {
				return false
			}
		}
		return true
	}
	if !quiesce() {
		return
	}
	if nerr != nil || srv == nil {
		e.Broken("mtail.New: %v", nerr)
		return
	}
	want["aaa_witness.mtail"] = progCounters{loads: 1}
	scan()
	// independent witnesses
	appended := map[string]int64{}
	totalAppended := int64(0)
	// an unterminated fragment at the end of a log; when that file generation ends (rotated, truncated,
	// deleted, shutdown) it is delivered — and must be counted — as a line of its own
	fragment := map[string]bool{}
	flush := func(p string) {
		if fragment[p] {
			fragment[p] = false
			appended[p]++
			totalAppended++
			e.Probe("fragment_flushed_as_line")
		}
	}
	rtErrs := map[string]int64{}
	exists := map[string]bool{}
	for _, p := range paths {
		exists[p] = true
	}
	var did []string
	sockClosed := false
	hist := func() string { return strings.Join(did, "; ") }
	check := func(when string) bool {
		v := peekStore(store)
		// lines received by the loader == lines delivered by all streams == witness
		gotLines := expvarInt("lines_total") - baseLines
		wn, _ := v.intOf("n", "aaa_witness.mtail")
		if gotLines != totalAppended || wn != totalAppended {
			e.Fail("lines_total", "%s, history [%s]: %d lines were appended to the logs; lines_total moved by %d and the witness program counted %d", when, hist(), totalAppended, gotLines, wn)
			return false
		}
		logNames := paths
		if sockSource != "" {
			logNames = append(append([]string{}, paths...), sockSource)
		}
		for _, p := range logNames {
			got := expvarMapInt("log_lines_total", p) - baseLogLines[p]
			wp, _ := v.intOf("perfile", "aaa_witness.mtail", p)
			if got != appended[p] || wp != appended[p] {
				e.Fail("log_lines_total", "%s, history [%s]: %d lines were appended to %s; log_lines_total moved by %d and the witness counted %d", when, hist(), appended[p], filepath.Base(p), got, wp)
				return false
			}
		}
		for _, n := range all {
			got := snapProg(n).sub(base[n])
			w := want[n]
			if got.rtErrs != rtErrs[n] {
				e.Fail("runtime_errors", "%s, history [%s]: %s raised %d runtime errors by the harness's predicate, prog_runtime_errors_total moved by %d", when, hist(), n, rtErrs[n], got.rtErrs)
				return false
			}
			if got.loads != w.loads {
				e.Fail("loads", "%s, history [%s]: %s was loaded %d times, prog_loads_total moved by %d", when, hist(), n, w.loads, got.loads)
				return false
			}
			if got.unloads != w.unloads {
				e.Fail("unloads", "%s, history [%s]: %s was unloaded %d times, prog_unloads_total moved by %d", when, hist(), n, w.unloads, got.unloads)
				return false
			}
			if got.loadErrs != w.loadErrs {
				cls := "load_errors-compile"
				if ps[n] != nil && (ps[n].kind == "conflict" || ps[n].kind == "selfconflict") {
					cls = "load_errors-register"
				}
				e.Fail(cls, "%s, history [%s]: %d loads of %s failed (broken source or refused registration), prog_load_errors_total moved by %d", when, hist(), w.loadErrs, n, got.loadErrs)
				return false
			}
		}
		live := int64(0)
		for _, p := range paths {
			if exists[p] {
				live++
			}
		}
		if sockSource != "" && !sockClosed {
			live++
		}
		if got := logCountVar() - baseLogCount; got != live {
			e.Fail("log_count", "%s, history [%s]: %d log files exist and match the pattern, log_count is %d", when, hist(), live, got)
			return false
		}
		return true
	}
	if !observe() || !check("after start-up") {
		cancel()
		return
	}
	nact := 2 + e.Choose("gen", 8)
	lineNo := 0
	for i := 0; i < nact && !e.Failed(); i++ {
		var desc string
		switch a := e.Choose("gen", 10); {
		case a <= 3: // append lines to a log
			p := paths[e.Choose("gen", len(paths))]
			if !exists[p] {
				desc = "nop"
				break
			}
			k := 1 + e.Choose("gen", 4)
			var sb strings.Builder
			if fragment[p] {
				// the first new line completes the fragment "9 7" + "" -> keep it matching errp/divp predicates simple:
				// the fragment text is "7 42" without newline, so finishing it with "\n" makes one more ordinary line
				sb.WriteString("\n")
				fragment[p] = false
				appended[p]++
				totalAppended++
			}
			for j := 0; j < k; j++ {
				lineNo++
				first := lineNo
				if e.Choose("gen", 4) == 0 {
					first = 0
				}
				w := []string{"7", "42", "abc", "x1"}[e.Choose("gen", 4)]
				fmt.Fprintf(&sb, "%d %s\n", first, w)
				appended[p]++
				totalAppended++
				if ps["errp.mtail"].running == "errp" && !c25IsNumber(w) {
					rtErrs["errp.mtail"]++
					e.Probe("runtime_error_strtol")
				}
				if ps["divp.mtail"].running == "divp" && first == 0 {
					rtErrs["divp.mtail"]++
					e.Probe("runtime_error_div0")
				}
			}
			if e.Choose("gen", 4) == 0 {
				// leave an unterminated line at the end ("7 42": no runtime error for errp, none for divp)
				sb.WriteString("7 42")
				fragment[p] = true
			}
			mustWrite(p, sb.String(), os.O_APPEND|os.O_WRONLY)
			desc = fmt.Sprintf("append %d lines to %s (fragment left: %v)", k, filepath.Base(p), fragment[p])
		case a == 4: // rotate
			p := paths[e.Choose("gen", len(paths))]
			if !exists[p] {
				desc = "nop"
				break
			}
			flush(p)
			os.Remove(p + ".1")
			os.Rename(p, p+".1")
			mustWrite(p, "", os.O_CREATE|os.O_WRONLY|os.O_EXCL)
			desc = "rotate " + filepath.Base(p)
			e.Probe("rotate")
		case a == 5: // truncate
			p := paths[e.Choose("gen", len(paths))]
			if exists[p] {
				flush(p)
				os.Truncate(p, 0)
				desc = "truncate " + filepath.Base(p)
				e.Probe("truncate")
			} else {
				desc = "nop"
			}
		case a == 6 && sockSource != "" && e.Bool("gen"): // two connections arrive together on the socket and write a few lines each
			nconn := 2 + e.Choose("gen", 2)
			finished := 0
			for c := 0; c < nconn; c++ {
				k := 1 + e.Choose("gen", 3)
				var sb strings.Builder
				for j := 0; j < k; j++ {
					lineNo++
					w := []string{"7", "42", "abc", "x1"}[e.Choose("gen", 4)]
					fmt.Fprintf(&sb, "%d %s\n", lineNo, w)
					appended[sockSource]++
					totalAppended++
					if ps["errp.mtail"].running == "errp" && !c25IsNumber(w) {
						rtErrs["errp.mtail"]++
					}
				}
				data := sb.String()
				e.S.Go("sockwriter", func() {
					defer func() { finished++ }()
					conn, err := snet.dial("unix", strings.TrimPrefix(sockSource, "unix://"))
					if err != nil {
						return
					}
					simrt.HYield()
					conn.clientWrite([]byte(data))
					simrt.HYield()
					conn.clientClose()
				})
			}
			if !quiesce() {
				cancel()
				return
			}
			if finished != nconn {
				e.Broken("socket writers did not finish")
				cancel()
				return
			}
			desc = fmt.Sprintf("%d connections write to the socket", nconn)
			e.Probe("socket_burst")
		case a == 6: // delete / recreate
			p := paths[e.Choose("gen", len(paths))]
			if exists[p] {
				flush(p)
				os.Remove(p)
				exists[p] = false
				desc = "delete " + filepath.Base(p)
				e.Probe("delete_log")
			} else {
				mustWrite(p, "", os.O_CREATE|os.O_WRONLY|os.O_EXCL)
				exists[p] = true
				desc = "recreate " + filepath.Base(p)
			}
		default: // a program change followed by a reload
			n := names[e.Choose("gen", len(names))]
			switch e.Choose("gen", 5) {
			case 0:
				k := map[string]string{"errp.mtail": "errp", "divp.mtail": "divp"}[n]
				writeProg(n, k)
				desc = "write " + n + " (valid)"
				e.Probe("prog_valid")
			case 1:
				if e.Choose("gen", 3) == 0 {
					// the entry becomes a symlink whose target is missing: listed, cannot be opened — a failed load
					pp := filepath.Join(progs, n)
					os.Remove(pp)
					os.Symlink(filepath.Join(progs, "gone", n), pp)
					verCounter++
					ps[n].kind, ps[n].onDisk, ps[n].version = "dangling", true, verCounter
					desc = "replace " + n + " by a dangling symlink"
					e.Probe("prog_dangling_symlink")
					break
				}
				writeProg(n, "broken")
				desc = "write " + n + " (broken)"
				e.Probe("prog_broken")
			case 2:
				if e.Bool("gen") {
					writeProg(n, "conflict")
					desc = "write " + n + " (kind conflict with witness)"
				} else {
					writeProg(n, "selfconflict")
					desc = "write " + n + " (two declarations exported under one name with different kinds)"
				}
				e.Probe("prog_refused")
			case 3:
				if ps[n].onDisk {
					os.Remove(filepath.Join(progs, n))
					ps[n].onDisk = false
					desc = "remove " + n
					e.Probe("prog_removed")
				} else {
					desc = "reload only"
				}
			default:
				desc = "reload only"
			}
			done := false
			e.S.Go("reload", func() { srv.VerifRuntime().LoadAllPrograms(); done = true })
			if !quiesce() {
				cancel()
				return
			}
			if !done {
				e.Fail("reload-stuck", "history [%s]: LoadAllPrograms did not return; live: %s", hist(), liveString(e))
				cancel()
				return
			}
			scan()
		}
		did = append(did, desc)
		e.Event("action %d %s", i, desc)
		if !observe() || !check(fmt.Sprintf("after action %d (%s)", i, desc)) {
			cancel()
			return
		}
	}
	if e.Failed() {
		cancel()
		return
	}
	cancel()
	if !quiesce() {
		return
	}
	sw.Tick()
	pw.Tick()
	if !quiesce() {
		return
	}
	if !returned {
		e.Fail("run-did-not-return", "history [%s]: Server.Run did not return after cancellation; live: %s", hist(), liveString(e))
		return
	}
	if live := e.S.Live(); len(live) > 0 {
		e.Fail("task-left", "history [%s]: tasks remain after shutdown: %s", hist(), liveString(e))
		return
	}
	if got := logCountVar() - baseLogCount; got != 0 {
		e.Fail("log_count", "history [%s]: log_count is %d after shutdown", hist(), got)
		return
	}
	for _, p := range paths {
		if exists[p] {
			flush(p)
		}
	}
	for _, p := range paths {
		exists[p] = false // every stream has ended
	}
	sockClosed = true
	did = append(did, "shutdown")
	if !check("after shutdown") {
		return
	}
	var kinds []string
	for _, n := range names {
		kinds = append(kinds, ps[n].kind)
	}
	sort.Strings(kinds)
	e.R.Nontrivial = totalAppended > 0 && (e.R.Probes["prog_valid"]+e.R.Probes["prog_broken"]+e.R.Probes["prog_refused"]+e.R.Probes["prog_removed"]+e.R.Probes["rotate"]+e.R.Probes["truncate"] > 0)
	e.R.Key = fmt.Sprintf("%s|%x", hist(), e.S.Signature())
	e.R.Sample = map[string]any{"actions": did, "lines": totalAppended}
}
