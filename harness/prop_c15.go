//go:build go1.23

package verifsim

import (
	"context"
	"fmt"
	"io"
	"strings"

	"github.com/google/mtail/internal/logline"
	"github.com/google/mtail/internal/simrt"
	"github.com/google/mtail/internal/tailer/logstream"
)

// C15 — line framing is independent of how bytes arrive.
//
// SUT: the real logstream.LineReader (ReadAndSend / Finish) reading from a
// simulated io.Reader. Fault space: how the byte stream is cut into reads
// (every chunking), the read buffer size, zero-byte reads, data returned
// together with io.EOF. Oracle: an independent splitter.
//
// Two parts per run:
//   - a slice of the bounded-exhaustive space (strings over a 5-symbol alphabet
//     × all chunkings × buffer sizes × reader behaviours), driven synchronously
//     (the LineReader has no concurrency of its own; the "schedule" of this
//     property is the read chunking);
//   - sampled long streams under the scheduler, with the reader task and the
//     consumer task of the unbuffered output channel interleaved by the seed.

func init() { register("C15", propC15) }

var c15Alphabet = []string{"\n", "\r", "a", "\xc3", "\xa9"}

// c15Expected is the independent oracle: split at '\n', drop one trailing
// '\r' per terminated line, then the raw non-empty remainder.
func c15Expected(stream string) []string {
	var out []string
	for {
		i := strings.IndexByte(stream, '\n')
		if i < 0 {
			break
		}
		l := stream[:i]
		if strings.HasSuffix(l, "\r") {
			l = l[:len(l)-1]
		}
		out = append(out, l)
		stream = stream[i+1:]
	}
	if stream != "" {
		out = append(out, stream)
	}
	return out
}

// chunkReader is the simulated io.Reader.
type chunkReader struct {
	chunks    []string
	zeroAt    int  // insert a (0, nil) read before chunk zeroAt (-1: never)
	eofWith   bool // return the last chunk together with io.EOF
	i         int
	zeroDone  bool
	reads     int
	zeroReads int
	shortCuts int
}

func (r *chunkReader) Read(p []byte) (int, error) {
	r.reads++
	if r.i >= len(r.chunks) {
		return 0, io.EOF
	}
	if r.i == r.zeroAt && !r.zeroDone {
		r.zeroDone = true
		r.zeroReads++
		return 0, nil
	}
	c := r.chunks[r.i]
	n := copy(p, c)
	if n < len(c) {
		r.chunks[r.i] = c[n:]
		r.shortCuts++
		return n, nil
	}
	r.i++
	if r.eofWith && r.i == len(r.chunks) {
		return n, io.EOF
	}
	return n, nil
}

// c15Drive runs a LineReader over r the way the stream implementations do:
// read until (0, EOF), then Finish.
func c15Drive(lr *logstream.LineReader, ctx context.Context) error {
	for guard := 0; guard < 1<<20; guard++ {
		n, err := lr.ReadAndSend(ctx)
		if err != nil && err != io.EOF {
			return err
		}
		if err == io.EOF && n == 0 {
			lr.Finish(ctx)
			return nil
		}
	}
	return fmt.Errorf("reader did not reach EOF")
}

func c15Classify(got, want []string) (string, string) {
	if len(got) == len(want) {
		same := true
		for i := range got {
			if got[i] != want[i] {
				same = false
			}
		}
		if same {
			return "", ""
		}
	}
	detail := fmt.Sprintf("got %s want %s", quoteList(got), quoteList(want))
	gj, wj := strings.Join(got, ""), strings.Join(want, "")
	switch {
	case len(got) < len(want) && gj == wj:
		return "merged-lines", detail
	case len(got) < len(want):
		return "lost-line", detail
	case len(got) > len(want):
		return "dup-line", detail
	}
	for i := range got {
		if got[i] != want[i] {
			if strings.Trim(got[i], "\r") == strings.Trim(want[i], "\r") {
				if i == len(want)-1 {
					return "remainder", detail
				}
				return "cr-handling", detail
			}
		}
	}
	return "order", detail
}

// c15Sync runs one case without the scheduler; the channel is large enough
// to hold every possible line.
func c15Sync(stream string, cuts uint32, bufsize, behaviour int) (got []string, rd *chunkReader, err error) {
	var chunks []string
	last := 0
	for i := 1; i < len(stream); i++ {
		if cuts&(1<<(i-1)) != 0 {
			chunks = append(chunks, stream[last:i])
			last = i
		}
	}
	if len(stream) > 0 {
		chunks = append(chunks, stream[last:])
	}
	orig := append([]string{}, chunks...)
	rd = &chunkReader{chunks: chunks, zeroAt: -1}
	switch behaviour {
	case 1:
		rd.zeroAt = len(chunks) / 2
	case 2:
		rd.eofWith = true
	}
	lines := make(chan *logline.LogLine, 2*len(stream)+4)
	lr := logstream.NewLineReader("src", lines, rd, bufsize, func() {})
	err = c15Drive(lr, context.Background())
	if behaviour == 3 && err == nil {
		// the source ends, and the same reader then goes on with a source that starts over (what the file
		// stream does after a truncation): the same bytes again must give the same lines again
		rd.chunks, rd.i = orig, 0
		err = c15Drive(lr, context.Background())
	}
	close(lines)
	for l := range lines {
		got = append(got, l.Line)
	}
	return
}

func propC15(e *Env) {
	maxLen := 6
	if e.Tier == "thorough" {
		maxLen = 8
	}
	bufsizes := []int{1, 2, 3, 5, 8, 4096}
	// --- part 1: a slice of the exhaustive space --------------------------
	// The space is partitioned by seed: run k handles strings whose index ≡ k
	// (mod parts). The driver launches exactly `parts` runs for full coverage.
	parts := 64
	if v, ok := lookupEnvInt("VERIF_C15_PARTS"); ok {
		parts = v
	}
	part := int(e.R.Seed % uint64(parts))
	total, nontrivial := 0, 0
	var sample any
	idx := 0
	for n := 0; n <= maxLen && !e.Failed(); n++ {
		digits := make([]int, n)
		for {
			if idx%parts == part {
				var sb strings.Builder
				for _, d := range digits {
					sb.WriteString(c15Alphabet[d])
				}
				stream := sb.String()
				want := c15Expected(stream)
				nch := uint32(1)
				if n > 1 {
					nch = 1 << (n - 1)
				}
				for cuts := uint32(0); cuts < nch && !e.Failed(); cuts++ {
					for _, bs := range bufsizes {
						for beh := 0; beh < 4; beh++ {
							want := want
							if beh == 3 {
								want = append(append([]string{}, want...), want...)
							}
							got, rd, err := c15Sync(stream, cuts, bs, beh)
							total++
							if total&0xffff == 0 {
								progress.Add(1) // a long enumeration is progress as far as the watchdog is concerned
							}
							if err != nil {
								e.Fail("read-error", "stream %q cuts %b buf %d beh %d: %v", stream, cuts, bs, beh, err)
								break
							}
							if len(want) > 1 && cuts != 0 {
								nontrivial++
							}
							if rd.zeroReads > 0 {
								e.R.faultAdd("zero_byte_read", 1)
							}
							if rd.eofWith && len(rd.chunks) > 0 {
								e.R.faultAdd("data_with_eof", 1)
							}
							e.R.faultAdd("short_read", rd.shortCuts)
							if beh == 3 {
								e.R.faultAdd("source_restarts_after_end", 1)
							}
							if cl, detail := c15Classify(got, want); cl != "" {
								e.Fail(cl, "stream %q chunk-cuts %b bufsize %d behaviour %d: %s", stream, cuts, bs, beh, detail)
								break
							}
							if sample == nil && len(want) > 2 && cuts != 0 {
								sample = map[string]any{"stream": fmt.Sprintf("%q", stream), "cuts_bitmap": cuts, "bufsize": bs, "behaviour": beh, "lines": quoteList(want)}
							}
						}
					}
				}
			}
			idx++
			// next string of length n
			i := n - 1
			for i >= 0 {
				digits[i]++
				if digits[i] < len(c15Alphabet) {
					break
				}
				digits[i] = 0
				i--
			}
			if i < 0 {
				break
			}
		}
	}
	e.R.Evals = total
	e.R.Distinct = nontrivial
	e.R.Nontrivial = nontrivial > 0
	e.Event("exhaustive part=%d/%d cases=%d", part, parts, total)
	if e.Failed() {
		return
	}
	// --- part 2: a long random stream under the scheduler -----------------
	size := []int{64, 300, 5000, 70000, 200000}[e.Choose("gen", 5)]
	if e.Tier != "thorough" && size > 70000 {
		size = 70000
	}
	var sb strings.Builder
	for sb.Len() < size {
		switch e.Choose("gen", 8) {
		case 0:
			sb.WriteString("\n")
		case 1:
			sb.WriteString("\r\n")
		case 2:
			sb.WriteString("\r")
		case 3:
			sb.WriteString("é")
		case 4:
			// a long line, longer than small buffers
			sb.WriteString(strings.Repeat("x", 1+e.Choose("gen", 3000)))
		default:
			sb.WriteString(fmt.Sprintf("l%d", sb.Len()))
		}
	}
	stream := sb.String()
	if e.Bool("gen") {
		stream += "\n"
	}
	var chunks []string
	maxChunk := []int{1, 3, 17, 1000, 100000}[e.Choose("io", 5)]
	for off := 0; off < len(stream); {
		n := 1 + e.Choose("io", maxChunk)
		if off+n > len(stream) {
			n = len(stream) - off
		}
		chunks = append(chunks, stream[off:off+n])
		off += n
	}
	rd := &chunkReader{chunks: chunks, zeroAt: -1}
	if e.Bool("io") {
		rd.zeroAt = e.Choose("io", len(chunks)+1)
	}
	rd.eofWith = e.Bool("io")
	bs := []int{1, 7, 64, 4096, 131072}[e.Choose("io", 5)]
	want := c15Expected(stream)
	lines := make(chan *logline.LogLine)
	var got []string
	ctx := context.Background()
	var derr error
	e.S.Go("reader", func() {
		lr := logstream.NewLineReader("src", lines, rd, bs, func() {})
		derr = c15Drive(lr, ctx)
		simrt.HYield()
		close(lines)
	})
	e.S.Go("consumer", func() {
		for {
			l, ok := simrt.Recv(lines)
			if !ok {
				return
			}
			got = append(got, l.Line)
		}
	})
	// the reader and the consumer hand over one line per couple of steps: the budget scales with the stream
	e.S.MaxSteps = 40*len(stream) + 100000
	e.S.SpinOuts = 1 << 30 // reading a long stream byte by byte is a long computation, not a livelock
	if !e.S.Run(e.S.MaxSteps) {
		e.Fail("not-quiescent", "reader/consumer did not finish in the step budget (%d steps for %d bytes) %s", e.S.Steps, len(stream), e.S.Livelock)
		return
	}
	if live := e.S.Live(); len(live) > 0 {
		e.Fail("task-left", "tasks still alive after the stream ended: %+v", live)
		return
	}
	if derr != nil {
		e.Fail("read-error", "%v", derr)
		return
	}
	e.R.faultAdd("short_read", rd.shortCuts)
	e.R.faultAdd("zero_byte_read", rd.zeroReads)
	if rd.eofWith {
		e.R.faultAdd("data_with_eof", 1)
	}
	e.R.Evals++
	e.Event("sampled size=%d chunks=%d bufsize=%d lines=%d", len(stream), len(chunks), bs, len(want))
	if cl, detail := c15Classify(got, want); cl != "" {
		if len(detail) > 600 {
			detail = detail[:600] + "…"
		}
		e.Fail(cl, "sampled stream of %d bytes in %d chunks, bufsize %d: %s", len(stream), len(chunks), bs, detail)
		return
	}
	e.R.Distinct++
	e.R.Key = fmt.Sprintf("part%d", part)
	if sample == nil {
		sample = map[string]any{"stream_bytes": len(stream), "chunks": len(chunks), "bufsize": bs, "lines": len(want)}
	}
	e.R.Sample = sample
}
