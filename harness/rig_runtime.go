//go:build go1.23

package verifsim

import (
	"bytes"
	"context"
	"expvar"
	"fmt"
	"os"
	"path/filepath"
	"sort"
	"strconv"
	"strings"
	"sync"

	"github.com/google/mtail/internal/exporter"
	"github.com/google/mtail/internal/logline"
	"github.com/google/mtail/internal/metrics"
	"github.com/google/mtail/internal/metrics/datum"
	"github.com/google/mtail/internal/runtime"
	"github.com/google/mtail/internal/simrt"
	"github.com/prometheus/client_golang/prometheus"
	"github.com/prometheus/common/expfmt"
)

// rtRig runs the real program loader/runtime (fan-out goroutine, one VM
// goroutine per program) fed by a harness task.
type rtRig struct {
	e       *Env
	dir     string
	store   *metrics.Store
	lines   chan *logline.LogLine
	wg      sync.WaitGroup
	rt      *runtime.Runtime
	err     error
	started bool
	fed     int // lines accepted by the runtime so far
	closed  bool
}

// swarmRtOpts draws, per run, runtime options that must not change anything the properties speak about:
// no metric source positions (one run in three), runtime errors also logged (one in four).
func swarmRtOpts(e *Env) []runtime.Option {
	var o []runtime.Option
	if e.Choose("knob", 3) == 0 {
		o = append(o, runtime.OmitMetricSource())
		e.Probe("opt_omit_metric_source")
	}
	if e.Choose("knob", 4) == 0 {
		o = append(o, runtime.LogRuntimeErrors())
		e.Probe("opt_log_runtime_errors")
	}
	return o
}

func newRtRig(e *Env, dir string, opts ...runtime.Option) *rtRig {
	return newRtRigStore(e, dir, metrics.NewStore(), opts...)
}

func newRtRigStore(e *Env, dir string, store *metrics.Store, opts ...runtime.Option) *rtRig {
	r := &rtRig{e: e, dir: dir, store: store, lines: make(chan *logline.LogLine)}
	e.S.Go("runtime.New", func() {
		r.rt, r.err = runtime.New(r.lines, &r.wg, dir, r.store, opts...)
		r.started = true
	})
	return r
}

func (r *rtRig) quiesce() bool {
	if !r.e.S.Run(2000000) {
		if r.e.S.Livelock != "" {
			r.e.Fail("livelock", "a goroutine spins without ever blocking: %s", r.e.S.Livelock)
			return false
		}
		r.e.Fail("not-quiescent", "runtime did not become quiescent within the step budget (%d steps); live: %s", r.e.S.Steps, liveString(r.e))
		return false
	}
	return true
}

// feed starts a task that sends the given lines; done is set when all were accepted.
func (r *rtRig) feed(file string, lines []string, done *bool) int {
	return r.e.S.Go("feeder", func() {
		for _, l := range lines {
			simrt.Send(r.lines, logline.New(context.Background(), file, l))
			r.fed++
		}
		if done != nil {
			*done = true
		}
	})
}

// reload starts a task that calls LoadAllPrograms.
func (r *rtRig) reload(done *bool, err *error) int {
	return r.e.S.Go("reload", func() {
		e := r.rt.LoadAllPrograms()
		if err != nil {
			*err = e
		}
		if done != nil {
			*done = true
		}
	})
}

// shutdown closes the line channel and waits for the runtime to finish.
func (r *rtRig) shutdown() bool {
	if !r.closed {
		r.closed = true
		close(r.lines)
	}
	waited := false
	r.e.S.Go("wait", func() { r.wg.Wait(); waited = true })
	if !r.quiesce() {
		return false
	}
	if !waited {
		r.e.Fail("shutdown-stuck", "the runtime did not shut down after its input was closed; live: %s", liveString(r.e))
		return false
	}
	if live := r.e.S.Live(); len(live) > 0 {
		r.e.Fail("goroutine-left", "tasks alive after runtime shutdown: %s", liveString(r.e))
		return false
	}
	return true
}

func (r *rtRig) write(name, content string) {
	if err := os.WriteFile(filepath.Join(r.dir, name), []byte(content), 0o644); err != nil {
		panic(err)
	}
}

// storeView is an unsynchronised snapshot of the store taken by the controller
// while every task is stopped (no task can be in the middle of a map or slice
// operation: tasks only stop at yield points between statements).
type storeView struct {
	vals    map[string]string // "name{prog}[labels]" -> value string
	order   []string
	metrics []*metrics.Metric
}

func peekStore(s *metrics.Store) *storeView {
	v := &storeView{vals: map[string]string{}}
	var names []string
	for n := range s.Metrics {
		names = append(names, n)
	}
	sort.Strings(names)
	for _, n := range names {
		for _, m := range s.Metrics[n] {
			v.metrics = append(v.metrics, m)
			for _, lv := range m.LabelValues {
				k := fmt.Sprintf("%s{%s}[%s]", m.Name, m.Program, strings.Join(lv.Labels, ","))
				v.vals[k] = lv.Value.ValueString()
				v.order = append(v.order, k)
			}
		}
	}
	return v
}

func (v *storeView) intOf(name, prog string, labels ...string) (int64, bool) {
	s, ok := v.vals[fmt.Sprintf("%s{%s}[%s]", name, prog, strings.Join(labels, ","))]
	if !ok {
		return 0, false
	}
	n, err := strconv.ParseInt(s, 10, 64)
	return n, err == nil
}

// peekInt reads an integer datum of the metric (name, prog) currently in the store.
func peekInt(s *metrics.Store, name, prog string, labels ...string) (int64, bool) {
	for _, m := range s.Metrics[name] {
		if m.Program != prog {
			continue
		}
		for _, lv := range m.LabelValues {
			if strings.Join(lv.Labels, "\x00") == strings.Join(labels, "\x00") {
				if d, ok := lv.Value.(*datum.Int); ok {
					return d.Get(), true
				}
			}
		}
	}
	return 0, false
}

func expvarMapInt(mapName, key string) int64 {
	v := expvar.Get(mapName)
	m, ok := v.(*expvar.Map)
	if !ok {
		return 0
	}
	x := m.Get(key)
	if x == nil {
		return 0
	}
	n, _ := strconv.ParseInt(x.String(), 10, 64)
	return n
}

func expvarInt(name string) int64 {
	v := expvar.Get(name)
	if v == nil {
		return 0
	}
	n, _ := strconv.ParseInt(v.String(), 10, 64)
	return n
}

// expvarSnap reads the per-program loader counters for a set of names.
type progCounters struct{ loads, unloads, loadErrs, rtErrs int64 }

func snapProg(name string) progCounters {
	return progCounters{
		loads:    expvarMapInt("prog_loads_total", name),
		unloads:  expvarMapInt("prog_unloads_total", name),
		loadErrs: expvarMapInt("prog_load_errors_total", name),
		rtErrs:   expvarMapInt("prog_runtime_errors_total", name),
	}
}

func (a progCounters) sub(b progCounters) progCounters {
	return progCounters{a.loads - b.loads, a.unloads - b.unloads, a.loadErrs - b.loadErrs, a.rtErrs - b.rtErrs}
}

// promScraper scrapes the way the running daemon does: the exporter is
// registered once, while the store is still empty (mtail.New registers it
// before any program is loaded), and every scrape is a Gather on that registry.
type promScraper struct {
	reg *prometheus.Registry
}

func newPromScraper(ex *exporter.Exporter) (*promScraper, error) {
	reg := prometheus.NewRegistry()
	if err := reg.Register(ex); err != nil {
		return nil, err
	}
	return &promScraper{reg: reg}, nil
}

// Scrape must be called from a task.
func (p *promScraper) Scrape() (string, error) {
	mfs, err := p.reg.Gather()
	if err != nil {
		return "", err
	}
	var b bytes.Buffer
	enc := expfmt.NewEncoder(&b, expfmt.NewFormat(expfmt.TypeTextPlain))
	for _, mf := range mfs {
		if err := enc.Encode(mf); err != nil {
			return "", err
		}
	}
	return b.String(), nil
}

// newDaemonExport creates an exporter on the (still empty) store and registers
// it the way mtail.New does, before any program is loaded.
func newDaemonExport(e *Env, ctx context.Context, store *metrics.Store) (*exporter.Exporter, *promScraper) {
	var ex *exporter.Exporter
	var ps *promScraper
	var err error
	e.S.Go("exporter.New", func() {
		ex, err = exporter.New(ctx, store, exporter.Hostname("h"))
		if err == nil {
			ps, err = newPromScraper(ex)
		}
	})
	e.S.Run(200000)
	if ex == nil || ps == nil || err != nil {
		e.Broken("exporter setup failed: %v", err)
		return nil, nil
	}
	return ex, ps
}
