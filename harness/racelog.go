//go:build go1.23

package verifsim

import (
	"fmt"
	"os"
	"path/filepath"
	"sort"
	"strings"

	"github.com/google/mtail/internal/simrt"
)

// In race builds the worker points the detector's log at a file
// (GORACE=log_path=...) and looks at what was appended during each run.

var raceLogOffsets = map[string]int64{}

// raceReports returns the reports appended to the race log since the last call.
func raceReports() []string {
	prefix := os.Getenv("VERIF_RACELOG")
	if !simrt.RaceBuild || prefix == "" {
		return nil
	}
	files, _ := filepath.Glob(prefix + ".*")
	sort.Strings(files)
	var out []string
	for _, f := range files {
		b, err := os.ReadFile(f)
		if err != nil {
			continue
		}
		off := raceLogOffsets[f]
		if int64(len(b)) <= off {
			continue
		}
		raceLogOffsets[f] = int64(len(b))
		for _, rep := range strings.Split(string(b[off:]), "==================") {
			if strings.Contains(rep, "WARNING: DATA RACE") {
				out = append(out, rep)
			}
		}
	}
	return out
}

const mtailPkg = "github.com/google/mtail/internal/"

// raceClass names a report by the innermost mtail function of each of its two
// access stacks; ok is false when one of the accesses is made by harness or
// simulator code (not a statement about mtail).
func raceClass(rep string) (class string, ok bool) {
	// split into the access stacks: "Write at ...", "Previous read at ...", etc.
	var stacks [][]string
	var cur []string
	in := false
	for _, l := range strings.Split(rep, "\n") {
		t := strings.TrimSpace(l)
		switch {
		case strings.HasPrefix(t, "Write at") || strings.HasPrefix(t, "Read at") || strings.HasPrefix(t, "Previous write at") || strings.HasPrefix(t, "Previous read at") ||
			strings.HasPrefix(t, "Atomic write at") || strings.HasPrefix(t, "Previous atomic write at") || strings.HasPrefix(t, "Atomic read at") || strings.HasPrefix(t, "Previous atomic read at"):
			if in {
				stacks = append(stacks, cur)
			}
			cur, in = nil, true
		case strings.HasPrefix(t, "Goroutine "):
			if in {
				stacks = append(stacks, cur)
			}
			in = false
		case in && t != "" && !strings.HasPrefix(t, "/") && !strings.Contains(t, ".go:") && !strings.Contains(t, ".s:"):
			cur = append(cur, t) // a function line
		}
	}
	if in {
		stacks = append(stacks, cur)
	}
	if len(stacks) < 2 {
		return "race:unparsed", true
	}
	var fns []string
	for _, st := range stacks[:2] {
		fn := ""
		for _, f := range st {
			name := strings.TrimSuffix(f, "()")
			if strings.HasPrefix(name, "runtime.") || strings.HasPrefix(name, "sync.") || strings.HasPrefix(name, "sync/atomic.") || strings.HasPrefix(name, "internal/") {
				continue
			}
			if strings.HasPrefix(name, mtailPkg+"simrt.") || strings.Contains(name, "/verifsim.") {
				return "", false
			}
			if strings.HasPrefix(name, mtailPkg) {
				fn = strings.TrimPrefix(name, mtailPkg)
				break
			}
			// a library frame above mtail (encoding/json, fmt, reflect, prometheus...): keep looking
		}
		if fn == "" {
			return "", false
		}
		fns = append(fns, fn)
	}
	sort.Strings(fns)
	return fmt.Sprintf("race:%s|%s", fns[0], fns[1]), true
}
