// simgo is a source-to-source instrumenter: it rewrites a scratch copy of the
// mtail tree so that goroutine scheduling, lock acquisition order, select
// choice and map iteration order are decided by /verif/simrt instead of the Go
// runtime. It splices text at AST offsets (cmd/cover style), so the original
// line numbers are preserved. Anything it does not understand is a hard error:
// the caller treats that as machinery trouble (exit 2), never as a verdict.
//
// usage: simgo -root <scratch tree> [-pkgs p1,p2,...]
package main

import (
	"bytes"
	"flag"
	"fmt"
	"go/ast"
	"go/token"
	"go/types"
	"os"
	"path/filepath"
	"sort"
	"strings"

	"golang.org/x/tools/go/packages"
)

const simrtPath = "github.com/google/mtail/internal/simrt"

var defaultPkgs = []string{
	"internal/waker", "internal/logline", "internal/tailer", "internal/tailer/logstream",
	"internal/runtime", "internal/runtime/vm", "internal/metrics", "internal/metrics/datum",
	"internal/exporter", "internal/mtail",
}

const (
	kStmt   = 0
	kChan   = 1
	kLock   = 2
	kGo     = 3
	kSelect = 4
	kWait   = 5
)

type edit struct {
	start, end int // byte offsets in the file; start==end is an insertion
	seq        int
	gen        func(r *renderer) string
}

type renderer struct {
	src   []byte
	edits []*edit
}

func (r *renderer) add(start, end int, gen func(r *renderer) string) {
	r.edits = append(r.edits, &edit{start: start, end: end, seq: len(r.edits), gen: gen})
}

func (r *renderer) insert(at int, text string) {
	r.add(at, at, func(*renderer) string { return text })
}

// contains reports whether edit o lies strictly inside replacement e.
func contains(e, o *edit) bool {
	if e == o || e.start == e.end {
		return false
	}
	if o.start == o.end {
		return e.start < o.start && o.start < e.end
	}
	return e.start <= o.start && o.end <= e.end && !(e.start == o.start && e.end == o.end && e.seq > o.seq)
}

// render returns src[a:b] with every edit inside applied; edits nested in a
// replacement are applied by that replacement's generator (via render).
func (r *renderer) render(a, b int) string { return r.render2(a, b, false) }

func (r *renderer) render2(a, b int, inclEnd bool) string {
	var in []*edit
	for _, e := range r.edits {
		if e.start == e.end {
			if e.start >= a && e.start < b || (e.start == b && (a == b || inclEnd)) {
				in = append(in, e)
			}
		} else if e.start >= a && e.end <= b {
			in = append(in, e)
		}
	}
	// keep only edits not contained in another edit of the set
	var top []*edit
	for _, e := range in {
		nested := false
		for _, o := range in {
			if contains(o, e) {
				nested = true
				break
			}
		}
		if !nested {
			top = append(top, e)
		}
	}
	sort.SliceStable(top, func(i, j int) bool {
		if top[i].start != top[j].start {
			return top[i].start < top[j].start
		}
		// insertions before replacements at the same offset
		zi, zj := top[i].start == top[i].end, top[j].start == top[j].end
		if zi != zj {
			return zi
		}
		return top[i].seq < top[j].seq
	})
	var out bytes.Buffer
	pos := a
	for _, e := range top {
		if e.start < pos {
			fatalf("overlapping edits at offset %d", e.start)
		}
		out.Write(r.src[pos:e.start])
		out.WriteString(e.gen(r))
		pos = e.end
	}
	out.Write(r.src[pos:b])
	return out.String()
}

func fatalf(format string, args ...any) {
	fmt.Fprintf(os.Stderr, "simgo: "+format+"\n", args...)
	os.Exit(2)
}

type fileCtx struct {
	pkg      *packages.Package
	file     *ast.File
	tf       *token.File
	r        *renderer
	rel      string
	usesSim  bool
	replaced map[string]string // package name -> keep-alive reference text
	n        *counters
}

type counters struct {
	yields, gos, selects, mapranges, mutexes, netcalls int
}

var siteTab = []string{""}

func (fc *fileCtx) site(pos token.Pos, kind int) int32 {
	p := fc.pkg.Fset.Position(pos)
	siteTab = append(siteTab, fmt.Sprintf("%s:%d", fc.rel, p.Line))
	fc.usesSim = true
	return int32((len(siteTab)-1)<<3 | kind)
}

func (fc *fileCtx) off(p token.Pos) int { return fc.tf.Offset(p) }

func (fc *fileCtx) text(n ast.Node) string {
	return fc.r.render(fc.off(n.Pos()), fc.off(n.End()))
}

func main() {
	root := flag.String("root", "", "root of the scratch copy of the mtail tree")
	pkgsFlag := flag.String("pkgs", strings.Join(defaultPkgs, ","), "comma-separated package directories (relative to root) to instrument")
	flag.Parse()
	if *root == "" {
		fatalf("-root required")
	}
	absRoot, err := filepath.Abs(*root)
	if err != nil {
		fatalf("%v", err)
	}
	var patterns []string
	for _, p := range strings.Split(*pkgsFlag, ",") {
		patterns = append(patterns, "./"+p)
	}
	cfg := &packages.Config{
		Mode: packages.NeedName | packages.NeedFiles | packages.NeedCompiledGoFiles | packages.NeedSyntax |
			packages.NeedTypes | packages.NeedTypesInfo | packages.NeedImports | packages.NeedDeps,
		Dir:   absRoot,
		Tests: false,
	}
	pkgs, err := packages.Load(cfg, patterns...)
	if err != nil {
		fatalf("load: %v", err)
	}
	bad := false
	for _, p := range pkgs {
		for _, e := range p.Errors {
			fmt.Fprintf(os.Stderr, "simgo: %s: %v\n", p.PkgPath, e)
			bad = true
		}
	}
	if bad {
		os.Exit(2)
	}
	cnt := &counters{}
	sort.Slice(pkgs, func(i, j int) bool { return pkgs[i].PkgPath < pkgs[j].PkgPath })
	for _, p := range pkgs {
		for i, f := range p.Syntax {
			name := p.CompiledGoFiles[i]
			if !strings.HasSuffix(name, ".go") {
				continue
			}
			rel, err := filepath.Rel(absRoot, name)
			if err != nil || strings.HasPrefix(rel, "..") {
				continue
			}
			src, err := os.ReadFile(name)
			if err != nil {
				fatalf("%v", err)
			}
			fc := &fileCtx{pkg: p, file: f, tf: p.Fset.File(f.Pos()), r: &renderer{src: src}, rel: rel, replaced: map[string]string{}, n: cnt}
			fc.instrument()
			if len(fc.r.edits) == 0 {
				continue
			}
			// import + keep-alive references
			fc.r.insert(fc.off(f.Name.End()), "; import simrt \""+simrtPath+"\"")
			tail := "\n"
			var ks []string
			for k := range fc.replaced {
				ks = append(ks, k)
			}
			sort.Strings(ks)
			for _, k := range ks {
				tail += "var _ " + fc.replaced[k] + "\n"
			}
			if !fc.usesSim {
				tail += "var _ = simrt.Yield\n"
			}
			fc.r.insert(len(src), tail)
			out := fc.r.render2(0, len(src), true)
			if err := os.WriteFile(name, []byte(out), 0o644); err != nil {
				fatalf("%v", err)
			}
		}
	}
	// site table
	var b bytes.Buffer
	b.WriteString("// Code generated by simgo. DO NOT EDIT.\n\npackage simrt\n\nfunc init() {\n\tSiteTab = []string{\n")
	for _, s := range siteTab {
		fmt.Fprintf(&b, "\t\t%q,\n", s)
	}
	b.WriteString("\t}\n}\n")
	dst := filepath.Join(absRoot, "internal", "simrt", "sites_gen.go")
	if err := os.MkdirAll(filepath.Dir(dst), 0o755); err != nil {
		fatalf("%v", err)
	}
	if err := os.WriteFile(dst, b.Bytes(), 0o644); err != nil {
		fatalf("%v", err)
	}
	fmt.Printf("simgo: sites=%d yields=%d go=%d select=%d maprange=%d mutex=%d net=%d\n",
		len(siteTab)-1, cnt.yields, cnt.gos, cnt.selects, cnt.mapranges, cnt.mutexes, cnt.netcalls)
}

// pkgOf returns the imported package path if e is an identifier naming an import.
func (fc *fileCtx) pkgOf(e ast.Expr) (string, string) {
	id, ok := e.(*ast.Ident)
	if !ok {
		return "", ""
	}
	if pn, ok := fc.pkg.TypesInfo.Uses[id].(*types.PkgName); ok {
		return pn.Imported().Path(), id.Name
	}
	return "", ""
}

func (fc *fileCtx) instrument() {
	// 1. selector replacements (types and redirected calls)
	ast.Inspect(fc.file, func(n ast.Node) bool {
		sel, ok := n.(*ast.SelectorExpr)
		if !ok {
			return true
		}
		path, local := fc.pkgOf(sel.X)
		switch {
		case path == "sync" && (sel.Sel.Name == "Mutex" || sel.Sel.Name == "RWMutex"):
			name := sel.Sel.Name
			fc.r.add(fc.off(sel.Pos()), fc.off(sel.End()), func(*renderer) string { return "simrt." + name })
			fc.replaced[local] = local + ".Locker"
			fc.usesSim = true
			fc.n.mutexes++
		case path == "sync" && sel.Sel.Name == "Pool":
			// sync.Pool hands objects out depending on which P a goroutine runs on: a free list with a
			// fixed order keeps a tree that uses one replayable
			fc.r.add(fc.off(sel.Pos()), fc.off(sel.End()), func(*renderer) string { return "simrt.Pool" })
			fc.replaced[local] = local + ".Locker"
			fc.usesSim = true
		case path == "net" && (sel.Sel.Name == "Listen" || sel.Sel.Name == "ListenPacket" || sel.Sel.Name == "DialTimeout"):
			name := sel.Sel.Name
			fc.r.add(fc.off(sel.Pos()), fc.off(sel.End()), func(*renderer) string { return "simrt.Net" + name })
			fc.replaced[local] = local + ".Conn"
			fc.usesSim = true
			fc.n.netcalls++
		}
		return true
	})
	// 2. statement-level instrumentation of every function body
	ast.Inspect(fc.file, func(n ast.Node) bool {
		switch x := n.(type) {
		case *ast.FuncDecl:
			if x.Body != nil {
				fc.entryHooks(x)
				fc.block(x.Body.List)
			}
		case *ast.FuncLit:
			fc.block(x.Body.List)
		}
		return true
	})
}

// entryHooks wraps I/O arguments at the two seams of the logstream package.
func (fc *fileCtx) entryHooks(fd *ast.FuncDecl) {
	if fc.pkg.Name != "logstream" || fd.Recv != nil || len(fd.Body.List) == 0 {
		return
	}
	at := fc.off(fd.Body.Lbrace) + 1
	switch fd.Name.Name {
	case "NewLineReader":
		src := `""`
		if ps := fd.Type.Params.List; len(ps) > 0 && len(ps[0].Names) > 0 {
			if st := fc.pkg.TypesInfo.TypeOf(ps[0].Type); st != nil && st.String() == "string" {
				src = ps[0].Names[0].Name
			}
		}
		for _, f := range fd.Type.Params.List {
			t := fc.pkg.TypesInfo.TypeOf(f.Type)
			if t != nil && t.String() == "io.Reader" && len(f.Names) == 1 {
				name := f.Names[0].Name
				fc.r.insert(at, fmt.Sprintf(" %s = simrt.WrapReader(%s, %s);", name, src, name))
				fc.usesSim = true
			}
		}
	case "SetReadDeadlineOnDone":
		for _, f := range fd.Type.Params.List {
			if id, ok := f.Type.(*ast.Ident); ok && id.Name == "ReadDeadliner" && len(f.Names) == 1 {
				name := f.Names[0].Name
				fc.r.insert(at, fmt.Sprintf(" if simW, simOk := simrt.WrapDeadliner(%s).(ReadDeadliner); simOk { %s = simW };", name, name))
				fc.usesSim = true
			}
		}
	}
}

// shallowKind classifies a statement by the synchronisation it performs
// itself (not inside nested blocks or function literals).
func (fc *fileCtx) shallowKind(s ast.Stmt) int {
	kind := kStmt
	up := func(k int) {
		if k > kind || kind == kStmt {
			kind = k
		}
	}
	var visit func(n ast.Node) bool
	visit = func(n ast.Node) bool {
		switch x := n.(type) {
		case nil:
			return false
		case *ast.FuncLit:
			return false
		case *ast.BlockStmt:
			return false
		case *ast.GoStmt:
			up(kGo)
			return false
		case *ast.SelectStmt:
			up(kSelect)
			return false
		case *ast.SendStmt:
			up(kChan)
		case *ast.UnaryExpr:
			if x.Op == token.ARROW {
				up(kChan)
			}
		case *ast.RangeStmt:
			if t := fc.pkg.TypesInfo.TypeOf(x.X); t != nil {
				if _, ok := t.Underlying().(*types.Chan); ok {
					up(kChan)
				}
			}
			ast.Inspect(x.X, visit)
			return false
		case *ast.CallExpr:
			if id, ok := x.Fun.(*ast.Ident); ok && id.Name == "close" {
				if _, isBuiltin := fc.pkg.TypesInfo.Uses[id].(*types.Builtin); isBuiltin {
					up(kChan)
				}
			}
			if sel, ok := x.Fun.(*ast.SelectorExpr); ok {
				switch sel.Sel.Name {
				case "Lock", "RLock", "Unlock", "RUnlock", "TryLock", "TryRLock":
					up(kLock)
				case "Wait":
					up(kWait)
				}
			}
		case *ast.IfStmt:
			if x.Init != nil {
				ast.Inspect(x.Init, visit)
			}
			ast.Inspect(x.Cond, visit)
			return false
		case *ast.ForStmt:
			if x.Init != nil {
				ast.Inspect(x.Init, visit)
			}
			if x.Cond != nil {
				ast.Inspect(x.Cond, visit)
			}
			return false
		case *ast.SwitchStmt:
			if x.Init != nil {
				ast.Inspect(x.Init, visit)
			}
			if x.Tag != nil {
				ast.Inspect(x.Tag, visit)
			}
			return false
		case *ast.TypeSwitchStmt:
			return false
		case *ast.LabeledStmt:
			ast.Inspect(x.Stmt, visit)
			return false
		}
		return true
	}
	ast.Inspect(s, visit)
	return kind
}

func (fc *fileCtx) block(list []ast.Stmt) {
	for _, s := range list {
		fc.stmt(s, false)
	}
}

// stmt inserts the yield before s and handles the statement-specific rewrites;
// nested function literals are handled by the outer ast.Inspect.
func (fc *fileCtx) stmt(s ast.Stmt, labeled bool) {
	if _, ok := s.(*ast.EmptyStmt); ok {
		return
	}
	kind := fc.shallowKind(s)
	if !labeled {
		site := fc.site(s.Pos(), kind)
		fc.r.insert(fc.off(s.Pos()), fmt.Sprintf("simrt.Yield(%d); ", site))
		fc.n.yields++
	}
	switch x := s.(type) {
	case *ast.LabeledStmt:
		if _, ok := x.Stmt.(*ast.SelectStmt); ok {
			fc.checkLabelUnused(x)
		}
		fc.stmt(x.Stmt, true)
	case *ast.BlockStmt:
		fc.block(x.List)
	case *ast.IfStmt:
		fc.block(x.Body.List)
		switch e := x.Else.(type) {
		case *ast.BlockStmt:
			fc.block(e.List)
		case *ast.IfStmt:
			fc.elseIf(e)
		}
	case *ast.ForStmt:
		fc.loopBody(x.Body)
	case *ast.RangeStmt:
		fc.rangeStmt(x)
		fc.loopBody(x.Body)
	case *ast.SwitchStmt:
		fc.clauses(x.Body)
	case *ast.TypeSwitchStmt:
		fc.clauses(x.Body)
	case *ast.SelectStmt:
		fc.selectStmt(x)
	case *ast.GoStmt:
		fc.goStmt(x)
	}
}

func (fc *fileCtx) elseIf(x *ast.IfStmt) {
	fc.block(x.Body.List)
	switch e := x.Else.(type) {
	case *ast.BlockStmt:
		fc.block(e.List)
	case *ast.IfStmt:
		fc.elseIf(e)
	}
}

func (fc *fileCtx) loopBody(b *ast.BlockStmt) {
	if len(b.List) == 0 {
		site := fc.site(b.Lbrace, kStmt)
		fc.r.insert(fc.off(b.Lbrace)+1, fmt.Sprintf(" simrt.Yield(%d); ", site))
		fc.n.yields++
		return
	}
	fc.block(b.List)
}

func (fc *fileCtx) clauses(b *ast.BlockStmt) {
	for _, c := range b.List {
		switch cc := c.(type) {
		case *ast.CaseClause:
			fc.block(cc.Body)
		case *ast.CommClause:
			fc.block(cc.Body)
		}
	}
}

// checkLabelUnused refuses labelled statements we would wrap or restructure
// if the label is the target of a break/continue.
func (fc *fileCtx) checkLabelUnused(l *ast.LabeledStmt) {
	used := false
	ast.Inspect(l.Stmt, func(n ast.Node) bool {
		if b, ok := n.(*ast.BranchStmt); ok && b.Label != nil && b.Label.Name == l.Label.Name {
			used = true
		}
		return true
	})
	if used {
		p := fc.pkg.Fset.Position(l.Pos())
		fatalf("%s: labelled select/range targeted by break/continue is not supported", p)
	}
}

// rangeStmt rewrites `for k, v := range m` over a map.
func (fc *fileCtx) rangeStmt(x *ast.RangeStmt) {
	t := fc.pkg.TypesInfo.TypeOf(x.X)
	if t == nil {
		return
	}
	if _, ok := t.Underlying().(*types.Map); !ok {
		return
	}
	fc.usesSim = true
	fc.n.mapranges++
	start, end := fc.off(x.For), fc.off(x.Body.Lbrace)+1
	fc.r.add(start, end, func(r *renderer) string {
		k, v := "_", "_"
		if x.Key != nil {
			k = fc.text(x.Key)
		}
		if x.Value != nil {
			v = fc.text(x.Value)
		}
		m := fc.text(x.X)
		hdr := "for _, simE := range simrt.MapIter(" + m + ") { "
		if x.Tok == token.ASSIGN {
			return hdr + "var simOk bool; " + k + ", " + v + ", simOk = simE.Get(); if !simOk { continue };"
		}
		return hdr + k + ", " + v + ", simOk := simE.Get(); if !simOk { continue };"
	})
}

func (fc *fileCtx) isConst(e ast.Expr) bool {
	tv, ok := fc.pkg.TypesInfo.Types[e]
	if !ok {
		return false
	}
	return tv.Value != nil || tv.IsNil()
}

// goStmt rewrites `go f(args)`.
func (fc *fileCtx) goStmt(g *ast.GoStmt) {
	fc.n.gos++
	site := fc.site(g.Pos(), kGo)
	call := g.Call
	if fl, ok := call.Fun.(*ast.FuncLit); ok && len(call.Args) == 0 {
		fc.r.add(fc.off(g.Pos()), fc.off(fl.Pos()), func(*renderer) string { return fmt.Sprintf("simrt.Go(%d, ", site) })
		fc.r.add(fc.off(fl.End()), fc.off(g.End()), func(*renderer) string { return ")" })
		return
	}
	if call.Ellipsis.IsValid() && len(call.Args) == 0 {
		fatalf("%s: unsupported go statement", fc.pkg.Fset.Position(g.Pos()))
	}
	for _, a := range call.Args {
		if tv, ok := fc.pkg.TypesInfo.Types[a]; ok {
			if _, isTuple := tv.Type.(*types.Tuple); isTuple {
				fatalf("%s: go statement with multi-value argument is not supported", fc.pkg.Fset.Position(g.Pos()))
			}
		}
	}
	fc.r.add(fc.off(g.Pos()), fc.off(g.End()), func(r *renderer) string {
		var b strings.Builder
		b.WriteString("{ simF := " + fc.text(call.Fun) + "; ")
		var args []string
		for i, a := range call.Args {
			if fc.isConst(a) {
				args = append(args, fc.text(a))
				continue
			}
			name := fmt.Sprintf("simA%d", i)
			b.WriteString(name + " := " + fc.text(a) + "; ")
			args = append(args, name)
		}
		if call.Ellipsis.IsValid() {
			args[len(args)-1] += "..."
		}
		fmt.Fprintf(&b, "simrt.Go(%d, func() { simF(%s) }) }", site, strings.Join(args, ", "))
		return b.String()
	})
}

// selectStmt rewrites a select with two or more communication clauses so that
// the choice among ready clauses comes from the run's Choices.
func (fc *fileCtx) selectStmt(x *ast.SelectStmt) {
	var comms []*ast.CommClause
	for _, c := range x.Body.List {
		cc := c.(*ast.CommClause)
		fc.block(cc.Body)
		if cc.Comm != nil {
			comms = append(comms, cc)
		}
	}
	if len(comms) < 2 {
		return
	}
	fc.n.selects++
	site := fc.site(x.Pos(), kSelect)
	// refuse labels declared inside bodies (they would be duplicated)
	for _, cc := range x.Body.List {
		for _, s := range cc.(*ast.CommClause).Body {
			ast.Inspect(s, func(n ast.Node) bool {
				if _, ok := n.(*ast.FuncLit); ok {
					return false
				}
				if l, ok := n.(*ast.LabeledStmt); ok {
					fatalf("%s: label inside a select clause is not supported", fc.pkg.Fset.Position(l.Pos()))
				}
				return true
			})
		}
	}
	endPos := fc.pkg.Fset.Position(x.End())
	fc.r.add(fc.off(x.Pos()), fc.off(x.End()), func(r *renderer) string {
		var hoist strings.Builder
		// header text of each clause with hoisted channel / value expressions
		headers := map[*ast.CommClause]string{}
		idx := 0
		for _, c := range x.Body.List {
			cc := c.(*ast.CommClause)
			if cc.Comm == nil {
				continue
			}
			i := idx
			idx++
			var repl [][3]interface{} // start, end, text
			addRepl := func(e ast.Expr, name string) {
				hoist.WriteString(name + " := " + fc.text(e) + "; ")
				repl = append(repl, [3]interface{}{fc.off(e.Pos()), fc.off(e.End()), name})
			}
			recvX := func(e ast.Expr) ast.Expr {
				for {
					if p, ok := e.(*ast.ParenExpr); ok {
						e = p.X
						continue
					}
					break
				}
				u, ok := e.(*ast.UnaryExpr)
				if !ok || u.Op != token.ARROW {
					fatalf("%s: unsupported select clause", fc.pkg.Fset.Position(cc.Pos()))
				}
				return u.X
			}
			switch c := cc.Comm.(type) {
			case *ast.SendStmt:
				addRepl(c.Chan, fmt.Sprintf("simC%d", i))
				if !fc.isConst(c.Value) {
					addRepl(c.Value, fmt.Sprintf("simV%d", i))
				}
			case *ast.ExprStmt:
				addRepl(recvX(c.X), fmt.Sprintf("simC%d", i))
			case *ast.AssignStmt:
				if len(c.Rhs) != 1 {
					fatalf("%s: unsupported select clause", fc.pkg.Fset.Position(cc.Pos()))
				}
				addRepl(recvX(c.Rhs[0]), fmt.Sprintf("simC%d", i))
			default:
				fatalf("%s: unsupported select clause", fc.pkg.Fset.Position(cc.Pos()))
			}
			// header = text from "case" to ":" with replacements
			hs, he := fc.off(cc.Pos()), fc.off(cc.Colon)+1
			var h strings.Builder
			pos := hs
			for _, rp := range repl {
				h.Write(r.src[pos:rp[0].(int)])
				h.WriteString(rp[2].(string))
				pos = rp[1].(int)
			}
			h.Write(r.src[pos:he])
			headers[cc] = h.String()
		}
		bodyText := func(cc *ast.CommClause) string {
			bs := fc.off(cc.Colon) + 1
			be := fc.off(x.Body.Rbrace)
			for j, c := range x.Body.List {
				if c == ast.Stmt(cc) && j+1 < len(x.Body.List) {
					be = fc.off(x.Body.List[j+1].Pos())
				}
			}
			return r.render(bs, be)
		}
		// the original select, with hoisted operands
		var orig strings.Builder
		orig.WriteString("select {\n")
		for _, c := range x.Body.List {
			cc := c.(*ast.CommClause)
			if cc.Comm == nil {
				orig.WriteString("default:")
			} else {
				orig.WriteString(headers[cc])
			}
			orig.WriteString(bodyText(cc))
			orig.WriteString("\n")
		}
		orig.WriteString("}")
		var b strings.Builder
		b.WriteString("{ " + hoist.String())
		fmt.Fprintf(&b, "switch simrt.SelectStart(%d, %d) {\n", site, len(comms))
		for k := range comms {
			fmt.Fprintf(&b, "case %d:\n", k)
			depth := 0
			for j := 0; j < len(comms); j++ {
				cc := comms[(k+j)%len(comms)]
				b.WriteString("select {\n" + headers[cc] + bodyText(cc) + "\ndefault:\n")
				depth++
			}
			b.WriteString(orig.String())
			for ; depth > 0; depth-- {
				b.WriteString("\n}")
			}
			b.WriteString("\n")
		}
		b.WriteString("default:\n" + orig.String() + "\n}\n}")
		fmt.Fprintf(&b, "/*line :%d:%d*/", endPos.Line, endPos.Column)
		return b.String()
	})
}
