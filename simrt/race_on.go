//go:build race

package simrt

import (
	"runtime"
	"unsafe"
)

// RaceBuild reports whether the race detector is compiled in.
const RaceBuild = true

func raceAcquire[T any](p *T)      { runtime.RaceAcquire(unsafe.Pointer(p)) }
func raceRelease[T any](p *T)      { runtime.RaceRelease(unsafe.Pointer(p)) }
func raceReleaseMerge[T any](p *T) { runtime.RaceReleaseMerge(unsafe.Pointer(p)) }
func raceDisable()                 { runtime.RaceDisable() }
func raceEnable()                  { runtime.RaceEnable() }
