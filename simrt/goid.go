package simrt

import (
	"runtime"
	"strconv"
	"unsafe"
)

// getg returns the address of the current goroutine's g structure.
func getg() unsafe.Pointer

// goidOffset is the byte offset of the goid field inside runtime.g, found by
// self-calibration at init (compare the slow, documented way of reading the
// id — the header line of runtime.Stack — with the words of g). Zero means
// calibration failed and the slow path is used.
var goidOffset uintptr

func slowGoid() int64 {
	var buf [64]byte
	n := runtime.Stack(buf[:], false)
	// "goroutine 123 [running]:"
	b := buf[:n]
	const p = len("goroutine ")
	i := p
	for i < len(b) && b[i] >= '0' && b[i] <= '9' {
		i++
	}
	id, _ := strconv.ParseInt(string(b[p:i]), 10, 64)
	return id
}

//go:nocheckptr
func candidates(g unsafe.Pointer, id int64) []uintptr {
	var c []uintptr
	for off := uintptr(0); off < 320; off += 8 {
		if *(*int64)(unsafe.Add(g, off)) == id {
			c = append(c, off)
		}
	}
	return c
}

func init() {
	// Calibrate on three goroutines with different ids; the goid offset is
	// the only offset whose word equals the id in all of them.
	type res struct{ offs []uintptr }
	ch := make(chan res)
	probe := func() {
		ch <- res{candidates(getg(), slowGoid())}
	}
	count := map[uintptr]int{}
	const n = 3
	for i := 0; i < n; i++ {
		go probe()
		r := <-ch
		for _, o := range r.offs {
			count[o]++
		}
	}
	var found []uintptr
	for o, k := range count {
		if k == n {
			found = append(found, o)
		}
	}
	if len(found) == 1 {
		goidOffset = found[0]
	}
}

// Goid returns the id of the calling goroutine.
//
//go:nocheckptr
func Goid() int64 {
	if goidOffset != 0 {
		return *(*int64)(unsafe.Add(getg(), goidOffset))
	}
	return slowGoid()
}
