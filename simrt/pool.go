package simrt

import "sync"

// Pool stands in for sync.Pool in instrumented code. The real one hands
// objects out depending on which P the calling goroutine happens to run on
// and drops them at garbage collections, so a tree that uses one would not
// replay. This one is a last-in-first-out free list: Get returns the object
// put most recently, New is called only when the list is empty, nothing is
// ever dropped. (mtail itself has no sync.Pool at the pinned commit; changes
// to it may introduce one.)
type Pool struct {
	New func() any

	mu   sync.Mutex
	free []any
	reg  bool
}

// A pool is usually a package-level variable: what it holds would travel from
// one simulated run to the next in the same process, and a seed would no
// longer mean the same execution in every process. ResetPools empties every
// pool that was used since the last call; the worker calls it before each run.
var (
	poolsMu sync.Mutex
	pools   []*Pool
)

func ResetPools() {
	poolsMu.Lock()
	for _, p := range pools {
		p.mu.Lock()
		p.free, p.reg = nil, false
		p.mu.Unlock()
	}
	pools = nil
	poolsMu.Unlock()
}

// register is called with p.mu held.
func (p *Pool) register() {
	if !p.reg {
		p.reg = true
		poolsMu.Lock()
		pools = append(pools, p)
		poolsMu.Unlock()
	}
}

func (p *Pool) Get() any {
	p.mu.Lock()
	p.register()
	if n := len(p.free); n > 0 {
		x := p.free[n-1]
		p.free = p.free[:n-1]
		p.mu.Unlock()
		return x
	}
	p.mu.Unlock()
	if p.New != nil {
		return p.New()
	}
	return nil
}

func (p *Pool) Put(x any) {
	if x == nil {
		return
	}
	p.mu.Lock()
	p.register()
	p.free = append(p.free, x)
	p.mu.Unlock()
}
