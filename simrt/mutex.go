package simrt

import (
	"sync"
	"sync/atomic"
)

// Mutex replaces sync.Mutex in instrumented code. Under a simulator a waiter
// parks on a bubble channel (a goroutine blocked on a real sync.Mutex is not
// "durably blocked" for synctest, so quiescence detection would hang), there
// is a scheduling point before every acquisition, and which waiter gets the
// lock next is the scheduler's decision. Without a simulator it is a plain
// sync.Mutex.
type Mutex struct {
	real sync.Mutex
	held atomic.Int32
	w    atomic.Pointer[chan struct{}]
}

func waitChan(w *atomic.Pointer[chan struct{}]) chan struct{} {
	for {
		if p := w.Load(); p != nil {
			return *p
		}
		c := make(chan struct{})
		if w.CompareAndSwap(nil, &c) {
			return c
		}
	}
}

func broadcast(w *atomic.Pointer[chan struct{}]) {
	if p := w.Swap(nil); p != nil {
		close(*p)
	}
}

func (m *Mutex) Lock() {
	s := S.Load()
	if s == nil {
		m.real.Lock()
		return
	}
	s.yield(KLock)
	for {
		if m.held.CompareAndSwap(0, 1) {
			raceAcquire(&m.held)
			return
		}
		c := waitChan(&m.w)
		if m.held.Load() == 0 {
			continue
		}
		<-c
		s.yield(KLock)
	}
}

func (m *Mutex) TryLock() bool {
	s := S.Load()
	if s == nil {
		return m.real.TryLock()
	}
	s.yield(KLock)
	if m.held.CompareAndSwap(0, 1) {
		raceAcquire(&m.held)
		return true
	}
	return false
}

func (m *Mutex) Unlock() {
	s := S.Load()
	if s == nil {
		m.real.Unlock()
		return
	}
	raceRelease(&m.held)
	if !m.held.CompareAndSwap(1, 0) {
		panic("simrt: unlock of unlocked Mutex")
	}
	broadcast(&m.w)
}

// RWMutex replaces sync.RWMutex; it keeps Go's rule that a waiting writer
// blocks new readers.
type RWMutex struct {
	real    sync.RWMutex
	g       sync.Mutex // guards the three fields below; never held across a park
	readers int
	writer  bool
	wwait   int
	w       atomic.Pointer[chan struct{}]
	rsem    int32 // addresses used for race annotations only
	wsem    int32
}

func (m *RWMutex) RLock() {
	s := S.Load()
	if s == nil {
		m.real.RLock()
		return
	}
	s.yield(KLock)
	for {
		m.g.Lock()
		if !m.writer && m.wwait == 0 {
			m.readers++
			m.g.Unlock()
			raceAcquire(&m.wsem)
			return
		}
		c := waitChan(&m.w)
		m.g.Unlock()
		<-c
		s.yield(KLock)
	}
}

func (m *RWMutex) TryRLock() bool {
	s := S.Load()
	if s == nil {
		return m.real.TryRLock()
	}
	s.yield(KLock)
	m.g.Lock()
	defer m.g.Unlock()
	if !m.writer && m.wwait == 0 {
		m.readers++
		raceAcquire(&m.wsem)
		return true
	}
	return false
}

func (m *RWMutex) RUnlock() {
	s := S.Load()
	if s == nil {
		m.real.RUnlock()
		return
	}
	raceReleaseMerge(&m.rsem)
	m.g.Lock()
	m.readers--
	if m.readers < 0 {
		m.g.Unlock()
		panic("simrt: RUnlock of unlocked RWMutex")
	}
	if m.readers == 0 {
		broadcast(&m.w)
	}
	m.g.Unlock()
}

func (m *RWMutex) Lock() {
	s := S.Load()
	if s == nil {
		m.real.Lock()
		return
	}
	s.yield(KLock)
	m.g.Lock()
	m.wwait++
	for {
		if !m.writer && m.readers == 0 {
			m.writer = true
			m.wwait--
			m.g.Unlock()
			raceAcquire(&m.rsem)
			raceAcquire(&m.wsem)
			return
		}
		c := waitChan(&m.w)
		m.g.Unlock()
		<-c
		s.yield(KLock)
		m.g.Lock()
	}
}

func (m *RWMutex) TryLock() bool {
	s := S.Load()
	if s == nil {
		return m.real.TryLock()
	}
	s.yield(KLock)
	m.g.Lock()
	defer m.g.Unlock()
	if !m.writer && m.readers == 0 {
		m.writer = true
		raceAcquire(&m.rsem)
		raceAcquire(&m.wsem)
		return true
	}
	return false
}

func (m *RWMutex) Unlock() {
	s := S.Load()
	if s == nil {
		m.real.Unlock()
		return
	}
	raceRelease(&m.wsem)
	m.g.Lock()
	if !m.writer {
		m.g.Unlock()
		panic("simrt: Unlock of unlocked RWMutex")
	}
	m.writer = false
	broadcast(&m.w)
	m.g.Unlock()
}

// RLocker mirrors sync.RWMutex.RLocker.
func (m *RWMutex) RLocker() sync.Locker { return (*rlocker)(m) }

type rlocker RWMutex

func (r *rlocker) Lock()   { (*RWMutex)(r).RLock() }
func (r *rlocker) Unlock() { (*RWMutex)(r).RUnlock() }

// State reports (readers, writer held, writers waiting) — for oracles.
func (m *RWMutex) State() (int, bool, int) {
	m.g.Lock()
	defer m.g.Unlock()
	return m.readers, m.writer, m.wwait
}
