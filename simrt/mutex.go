package simrt

import (
	"sync"
	"sync/atomic"
)

// Mutex replaces sync.Mutex in instrumented code. Under a simulator a waiter
// parks on a bubble channel (a goroutine blocked on a real sync.Mutex is not
// "durably blocked" for synctest, so quiescence detection would hang), there
// is a scheduling point before every acquisition, and which waiter gets the
// lock next is the scheduler's decision. Without a simulator it is a plain
// sync.Mutex.
type Mutex struct {
	real sync.Mutex
	sema int32 // address used for race annotations only
	held atomic.Int32
	w    atomic.Pointer[chan struct{}]
}

//go:norace
func waitChan(w *atomic.Pointer[chan struct{}]) chan struct{} {
	for {
		if p := w.Load(); p != nil {
			return *p
		}
		c := make(chan struct{})
		if w.CompareAndSwap(nil, &c) {
			return c
		}
	}
}

//go:norace
func broadcast(w *atomic.Pointer[chan struct{}]) {
	if p := w.Swap(nil); p != nil {
		close(*p)
	}
}

//go:norace
func (m *Mutex) Lock() {
	s := S.Load()
	if s == nil {
		m.real.Lock()
		return
	}
	s.yield(KLock)
	raceDisable()
	for {
		if m.held.CompareAndSwap(0, 1) {
			raceEnable()
			raceAcquire(&m.sema)
			return
		}
		c := waitChan(&m.w)
		if m.held.Load() == 0 {
			continue
		}
		<-c
		raceEnable()
		s.yield(KLock)
		raceDisable()
	}
}

//go:norace
func (m *Mutex) TryLock() bool {
	s := S.Load()
	if s == nil {
		return m.real.TryLock()
	}
	s.yield(KLock)
	raceDisable()
	ok := m.held.CompareAndSwap(0, 1)
	raceEnable()
	if ok {
		raceAcquire(&m.sema)
	}
	return ok
}

//go:norace
func (m *Mutex) Unlock() {
	s := S.Load()
	if s == nil {
		m.real.Unlock()
		return
	}
	raceRelease(&m.sema)
	raceDisable()
	defer raceEnable()
	if !m.held.CompareAndSwap(1, 0) {
		panic("simrt: unlock of unlocked Mutex")
	}
	broadcast(&m.w)
}

// RWMutex replaces sync.RWMutex; it keeps Go's rule that a waiting writer
// blocks new readers.
type RWMutex struct {
	real    sync.RWMutex
	g       sync.Mutex // guards the three fields below; never held across a park
	readers int
	writer  bool
	wwait   int
	w       atomic.Pointer[chan struct{}]
	rsem    int32 // addresses used for race annotations only
	wsem    int32
}

//go:norace
func (m *RWMutex) RLock() {
	s := S.Load()
	if s == nil {
		m.real.RLock()
		return
	}
	s.yield(KLock)
	raceDisable()
	for {
		m.g.Lock()
		if !m.writer && m.wwait == 0 {
			m.readers++
			m.g.Unlock()
			raceEnable()
			raceAcquire(&m.wsem)
			return
		}
		c := waitChan(&m.w)
		m.g.Unlock()
		<-c
		raceEnable()
		s.yield(KLock)
		raceDisable()
	}
}

//go:norace
func (m *RWMutex) TryRLock() bool {
	s := S.Load()
	if s == nil {
		return m.real.TryRLock()
	}
	s.yield(KLock)
	raceDisable()
	m.g.Lock()
	ok := !m.writer && m.wwait == 0
	if ok {
		m.readers++
	}
	m.g.Unlock()
	raceEnable()
	if ok {
		raceAcquire(&m.wsem)
	}
	return ok
}

//go:norace
func (m *RWMutex) RUnlock() {
	s := S.Load()
	if s == nil {
		m.real.RUnlock()
		return
	}
	raceReleaseMerge(&m.rsem)
	raceDisable()
	defer raceEnable()
	m.g.Lock()
	m.readers--
	if m.readers < 0 {
		m.g.Unlock()
		panic("simrt: RUnlock of unlocked RWMutex")
	}
	if m.readers == 0 {
		broadcast(&m.w)
	}
	m.g.Unlock()
}

//go:norace
func (m *RWMutex) Lock() {
	s := S.Load()
	if s == nil {
		m.real.Lock()
		return
	}
	s.yield(KLock)
	raceDisable()
	m.g.Lock()
	m.wwait++
	for {
		if !m.writer && m.readers == 0 {
			m.writer = true
			m.wwait--
			m.g.Unlock()
			raceEnable()
			raceAcquire(&m.rsem)
			raceAcquire(&m.wsem)
			return
		}
		c := waitChan(&m.w)
		m.g.Unlock()
		<-c
		raceEnable()
		s.yield(KLock)
		raceDisable()
		m.g.Lock()
	}
}

//go:norace
func (m *RWMutex) TryLock() bool {
	s := S.Load()
	if s == nil {
		return m.real.TryLock()
	}
	s.yield(KLock)
	raceDisable()
	m.g.Lock()
	ok := !m.writer && m.readers == 0
	if ok {
		m.writer = true
	}
	m.g.Unlock()
	raceEnable()
	if ok {
		raceAcquire(&m.rsem)
		raceAcquire(&m.wsem)
	}
	return ok
}

//go:norace
func (m *RWMutex) Unlock() {
	s := S.Load()
	if s == nil {
		m.real.Unlock()
		return
	}
	raceRelease(&m.wsem)
	raceDisable()
	defer raceEnable()
	m.g.Lock()
	if !m.writer {
		m.g.Unlock()
		panic("simrt: Unlock of unlocked RWMutex")
	}
	m.writer = false
	broadcast(&m.w)
	m.g.Unlock()
}

// RLocker mirrors sync.RWMutex.RLocker.
//
//go:norace
func (m *RWMutex) RLocker() sync.Locker { return (*rlocker)(m) }

type rlocker RWMutex

func (r *rlocker) Lock()   { (*RWMutex)(r).RLock() }
func (r *rlocker) Unlock() { (*RWMutex)(r).RUnlock() }

// State reports (readers, writer held, writers waiting) — for oracles.
//
//go:norace
func (m *RWMutex) State() (int, bool, int) {
	m.g.Lock()
	defer m.g.Unlock()
	return m.readers, m.writer, m.wwait
}
