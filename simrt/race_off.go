//go:build !race

package simrt

// RaceBuild reports whether the race detector is compiled in.
const RaceBuild = false

func raceAcquire[T any](p *T)      {}
func raceRelease[T any](p *T)      {}
func raceReleaseMerge[T any](p *T) {}
func raceDisable()                 {}
func raceEnable()                  {}
