package simrt

import (
	"io"
	"net"
	"time"
)

// Seams for I/O. The harness installs hooks; without hooks these are
// pass-throughs to the real thing.

// ReaderHook, if set, wraps the reader handed to logstream.NewLineReader.
var ReaderHook func(source string, r io.Reader) io.Reader

// DeadlinerHook, if set, wraps the object handed to SetReadDeadlineOnDone.
var DeadlinerHook func(d any) any

func WrapReader(source string, r io.Reader) io.Reader {
	if h := ReaderHook; h != nil && S.Load() != nil {
		return h(source, r)
	}
	return r
}

func WrapDeadliner(d any) any {
	if h := DeadlinerHook; h != nil && S.Load() != nil {
		return h(d)
	}
	return d
}

// Net hooks: the in-memory transport of the harness.
var (
	ListenHook       func(network, address string) (net.Listener, error)
	ListenPacketHook func(network, address string) (net.PacketConn, error)
	DialHook         func(network, address string, timeout time.Duration) (net.Conn, error)
)

func NetListen(network, address string) (net.Listener, error) {
	if h := ListenHook; h != nil && S.Load() != nil {
		return h(network, address)
	}
	return net.Listen(network, address)
}

func NetListenPacket(network, address string) (net.PacketConn, error) {
	if h := ListenPacketHook; h != nil && S.Load() != nil {
		return h(network, address)
	}
	return net.ListenPacket(network, address)
}

func NetDialTimeout(network, address string, timeout time.Duration) (net.Conn, error) {
	if h := DialHook; h != nil && S.Load() != nil {
		return h(network, address, timeout)
	}
	return net.DialTimeout(network, address, timeout)
}
