package simrt

import (
	"hash/fnv"
	"math/rand/v2"
	"sort"
	"sync"
)

// Choices is the single source of every random decision of a run. Decisions
// are grouped in named streams (one PRNG per stream, all derived from the one
// seed) so that removing a decision of one kind during minimisation does not
// shift the meaning of the decisions of the other kinds. A stream can be
// overridden by a tape (replay / minimisation): position i of the stream then
// returns tape[i] mod n, and 0 beyond the end of the tape. By convention 0 is
// the "simplest" alternative of every choice.
type Choices struct {
	mu     sync.Mutex
	seed   uint64
	replay bool
	tapes  map[string][]int
	pos    map[string]int
	rngs   map[string]*rand.Rand
	log    map[string][]int
	total  int
}

func NewChoices(seed uint64) *Choices {
	return &Choices{seed: seed, tapes: map[string][]int{}, pos: map[string]int{}, rngs: map[string]*rand.Rand{}, log: map[string][]int{}}
}

// NewReplay returns Choices that follow the given tapes exactly.
func NewReplay(seed uint64, tapes map[string][]int) *Choices {
	c := NewChoices(seed)
	c.replay = true
	for k, v := range tapes {
		c.tapes[k] = append([]int(nil), v...)
	}
	return c
}

func (c *Choices) rng(kind string) *rand.Rand {
	r := c.rngs[kind]
	if r == nil {
		h := fnv.New64a()
		h.Write([]byte(kind))
		r = rand.New(rand.NewPCG(c.seed, h.Sum64()))
		c.rngs[kind] = r
	}
	return r
}

// Choose returns a value in [0,n). n <= 1 returns 0 without consuming a
// decision.
func (c *Choices) Choose(kind string, n int) int {
	if n <= 1 {
		return 0
	}
	c.mu.Lock()
	defer c.mu.Unlock()
	var v int
	if c.replay {
		i := c.pos[kind]
		t := c.tapes[kind]
		if i < len(t) {
			v = t[i] % n
			if v < 0 {
				v = -v
			}
		}
		c.pos[kind] = i + 1
	} else {
		v = c.rng(kind).IntN(n)
	}
	c.log[kind] = append(c.log[kind], v)
	c.total++
	return v
}

// Log returns the decisions taken so far, per stream.
func (c *Choices) Log() map[string][]int {
	c.mu.Lock()
	defer c.mu.Unlock()
	out := map[string][]int{}
	for k, v := range c.log {
		out[k] = append([]int(nil), v...)
	}
	return out
}

// Total is the number of decisions taken.
func (c *Choices) Total() int {
	c.mu.Lock()
	defer c.mu.Unlock()
	return c.total
}

// Kinds lists the stream names used, sorted.
func (c *Choices) Kinds() []string {
	c.mu.Lock()
	defer c.mu.Unlock()
	var ks []string
	for k := range c.log {
		ks = append(ks, k)
	}
	sort.Strings(ks)
	return ks
}
