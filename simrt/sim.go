// Package simrt is the deterministic-simulation runtime that simgo-instrumented
// mtail code calls into. With no simulator installed (S == nil) every entry
// point is a cheap pass-through, so instrumented code behaves like the
// original.
//
// With a simulator installed, every goroutine that executes instrumented code
// is a *task*. Tasks stop ("park") at yield points and only the controller —
// the root goroutine of a testing/synctest bubble — lets exactly one of them
// continue at a time, chosen from the run's Choices. The bubble supplies the
// fake clock and quiescence detection (synctest.Wait).
package simrt

import (
	"fmt"
	"hash/fnv"
	"runtime"
	"sort"
	"strings"
	"sync"
	"sync/atomic"
	"testing/synctest"
	"time"
)

// Site kinds, encoded in the low 3 bits of a site id.
const (
	KStmt    = 0 // plain statement
	KChan    = 1 // channel operation / range over channel / close
	KLock    = 2 // mutex operation
	KGo      = 3 // goroutine start
	KSelect  = 4 // select
	KWait    = 5 // WaitGroup.Wait and other blocking library calls
	KHarness = 6 // explicit yield in harness code
	KFirst   = 7 // first stop of a task (before it runs anything)
)

// S is the installed simulator; nil means pass-through.
var S atomic.Pointer[Sim]

// SiteTab is filled by the file simgo generates (sites_gen.go): index = site>>3.
var SiteTab []string

// SiteName returns a printable name of a site id.
func SiteName(site int32) string {
	i := int(site >> 3)
	k := site & 7
	kn := [...]string{"stmt", "chan", "lock", "go", "select", "wait", "harness", "first"}[k]
	if i > 0 && i < len(SiteTab) {
		return SiteTab[i] + "/" + kn
	}
	return fmt.Sprintf("#%d/%s", i, kn)
}

type task struct {
	id       int
	goid     int64
	name     string
	spawn    int32 // site that spawned it
	foreign  bool  // not started through simrt.Go
	wake     chan struct{}
	spin     int64        // yield points passed since the last release
	spunOut  atomic.Int64 // how often in a row it had to be stopped for never blocking
	lastSpun bool
	restless int   // controller-owned: consecutive releases that ended at a yield point, not by blocking
	quantum  int64 // owned by the task while it runs, by the controller while it is parked (accessed from norace code only)
}

type msgKind uint8

const (
	mSpawn msgKind = iota
	mPark
	mExit
	mPanic
)

type msg struct {
	kind msgKind
	t    *task
	site int32
	text string
}

// TaskInfo describes a live task for oracles and reports.
type TaskInfo struct {
	ID      int
	Name    string
	Spawn   string
	Parked  bool   // stopped at a yield point (runnable)
	Site    string // where it is parked
	Foreign bool
}

// Sim is one simulated run.
type Sim struct {
	C *Choices

	ctlGoid int64
	tasks   sync.Map // goid -> *task
	current atomic.Pointer[task]
	msgs    chan msg
	nextID  atomic.Int64

	// Preemption policy, fixed per run.
	StmtPreempt bool  // also preempt at plain-statement sites (M2); otherwise only at sync sites (M1)
	Quanta      []int // table the quantum of each release is drawn from; -1 = run until it blocks

	// Controller-owned state.
	parked   map[int]*task
	parkSite map[int]int32
	alive    map[int]*task
	lastRun  int
	Steps    int
	MaxSteps int
	Panics   []string
	Nondet   []string
	seqToken int32  // address for the race annotations of Go
	Livelock string // set when a task was stopped SpinOuts times in a row for passing 20000 yield points without blocking
	SpinOuts int    // default 100 (2 million yield points); harnesses with long legitimate computations raise it
	sig      uint64
	pairs    map[uint64]struct{}
	lastSite int32
	Trace    []string // scheduling trace (bounded), for replay diffing and reports
	TraceOn  bool
	exited   int
	spawned  int
	start    time.Time
}

// spinLimit bounds the yield points one release may pass through.
const spinLimit = 20000

// ErrStepBudget is reported through Sim.OverBudget.
var DefaultQuanta = []int{-1, 0, 1, 2, 3, 5, 8, 13}

// New creates a simulator for the calling goroutine, which becomes the
// controller and must be the goroutine running inside synctest.Test.
func New(c *Choices) *Sim {
	s := &Sim{
		C:        c,
		ctlGoid:  Goid(),
		msgs:     make(chan msg, 1<<14),
		parked:   map[int]*task{},
		parkSite: map[int]int32{},
		alive:    map[int]*task{},
		MaxSteps: 200000,
		SpinOuts: 100,
		Quanta:   DefaultQuanta,
		pairs:    map[uint64]struct{}{},
		lastRun:  -1,
		start:    time.Now(),
	}
	return s
}

// Install makes s the active simulator.
func (s *Sim) Install() { S.Store(s) }

// Uninstall removes the active simulator. Goroutines of the run that are still
// alive — blocked for good, or spinning without ever blocking, which a
// property-breaking change to the program can cause — must not live on inside
// the worker process: a spinner would eat a CPU for the rest of the batch and
// keep its bubble from ever finishing. They are marked here and end themselves
// (runtime.Goexit, deferred calls run) at the next yield point they reach.
func (s *Sim) Uninstall() {
	s.tasks.Range(func(k, v any) bool {
		zombies.Store(k, struct{}{})
		return true
	})
	S.CompareAndSwap(s, nil)
}

var zombies sync.Map // goid -> struct{}: goroutines of finished runs

//go:norace
func reapIfZombie() {
	if _, ok := zombies.LoadAndDelete(Goid()); ok {
		runtime.Goexit()
	}
}

func (s *Sim) lookup(gid int64) *task {
	if v, ok := s.tasks.Load(gid); ok {
		return v.(*task)
	}
	return nil
}

// Yield is the call simgo inserts at scheduling points.
func Yield(site int32) {
	s := S.Load()
	if s == nil {
		reapIfZombie()
		return
	}
	s.yield(site)
}

//go:norace
func (s *Sim) yield(site int32) {
	raceDisable()
	defer raceEnable()
	gid := Goid()
	if gid == s.ctlGoid {
		return
	}
	t := s.lookup(gid)
	if t == nil {
		reapIfZombie() // a goroutine left over from an earlier run of this process
		t = s.registerForeign(gid, site)
	}
	if s.current.Load() == t {
		// A task that keeps passing yield points without ever blocking (a busy
		// loop) must come back to the controller eventually, whatever its
		// quantum, so that the step budget can catch it.
		t.spin++
		if t.spin == 1 {
			if !t.lastSpun {
				t.spunOut.Store(0) // the previous release ended by parking or blocking in time
			}
			t.lastSpun = false
		}
		if t.spin >= spinLimit {
			t.spunOut.Add(1)
			t.lastSpun = true
		} else {
			if site&7 == KStmt && !s.StmtPreempt {
				return
			}
			if t.quantum != 0 {
				if t.quantum > 0 {
					t.quantum--
				}
				return
			}
		}
	}
	s.park(t, site)
}

//go:norace
func (s *Sim) park(t *task, site int32) {
	s.msgs <- msg{kind: mPark, t: t, site: site}
	<-t.wake
}

//go:norace
func (s *Sim) registerForeign(gid int64, site int32) *task {
	t := &task{id: int(s.nextID.Add(1)), goid: gid, foreign: true, spawn: site, wake: make(chan struct{}, 1)}
	t.name = "foreign@" + SiteName(site)
	s.tasks.Store(gid, t)
	s.msgs <- msg{kind: mSpawn, t: t, site: site}
	return t
}

// Go starts f as a new task (the rewrite of a go statement).
func Go(site int32, f func()) {
	s := S.Load()
	if s == nil {
		go f()
		return
	}
	s.spawn(site, "", f)
}

//go:norace
func (s *Sim) spawn(site int32, name string, f func()) *task {
	s.yield(site)
	raceDisable()
	t := &task{id: int(s.nextID.Add(1)), spawn: site, wake: make(chan struct{}, 1), name: name}
	if t.name == "" {
		t.name = "go@" + SiteName(site)
	}
	s.msgs <- msg{kind: mSpawn, t: t, site: site}
	raceEnable()
	// the go statement itself stays visible to the race detector: it is the
	// program's own fork edge (parent happens-before child)
	go s.taskMain(t, site, f)
	return t
}

//go:norace
func (s *Sim) taskMain(t *task, site int32, f func()) {
	raceDisable()
	t.goid = Goid()
	s.tasks.Store(t.goid, t)
	defer func() {
		r := recover()
		raceDisable()
		if r != nil {
			buf := make([]byte, 8192)
			n := runtime.Stack(buf, false)
			s.msgs <- msg{kind: mPanic, t: t, text: fmt.Sprintf("%v\n%s", r, buf[:n])}
		}
		s.tasks.Delete(t.goid)
		s.msgs <- msg{kind: mExit, t: t}
		raceEnable()
	}()
	s.park(t, site&^7|KFirst)
	raceEnable()
	f()
}

// ---- controller side ------------------------------------------------------

func (s *Sim) mustCtl() {
	if Goid() != s.ctlGoid {
		panic("simrt: controller method called from a task")
	}
}

// Settle waits until every other goroutine of the bubble is durably blocked
// and absorbs their messages.
//
//go:norace
func (s *Sim) Settle() {
	s.mustCtl()
	raceDisable()
	defer raceEnable()
	for {
		synctest.Wait()
		full := len(s.msgs) == cap(s.msgs)
		var foreign []*task
		for {
			select {
			case m := <-s.msgs:
				switch m.kind {
				case mSpawn:
					s.alive[m.t.id] = m.t
					s.spawned++
					if m.t.foreign {
						foreign = append(foreign, m.t)
					}
				case mPark:
					s.parked[m.t.id] = m.t
					s.parkSite[m.t.id] = m.site
					if n := m.t.spunOut.Load(); n >= int64(s.SpinOuts) && s.Livelock == "" {
						s.Livelock = fmt.Sprintf("task %d (%s) passed %d x %d yield points without blocking, last at %s", m.t.id, m.t.name, n, spinLimit, SiteName(m.site))
					}
				case mExit:
					delete(s.alive, m.t.id)
					delete(s.parked, m.t.id)
					s.exited++
				case mPanic:
					s.Panics = append(s.Panics, fmt.Sprintf("task %d (%s): %s", m.t.id, m.t.name, m.text))
				}
				continue
			default:
			}
			break
		}
		if len(foreign) > 1 {
			// Two goroutines the simulator did not start registered within
			// one step: their ids depend on physical timing.
			var names []string
			for _, t := range foreign {
				names = append(names, t.name)
			}
			sort.Strings(names)
			s.Nondet = append(s.Nondet, "foreign goroutines registered together: "+strings.Join(names, ","))
		}
		if !full {
			return
		}
	}
}

// Runnable returns the ids of parked tasks, previously-run task first, then ascending.
func (s *Sim) runnable() []int {
	ids := make([]int, 0, len(s.parked))
	for id := range s.parked {
		ids = append(ids, id)
	}
	sort.Ints(ids)
	for i, id := range ids {
		if id == s.lastRun && i > 0 {
			copy(ids[1:i+1], ids[:i])
			ids[0] = id
			break
		}
	}
	return ids
}

// NumRunnable settles and returns how many tasks are parked at a yield point.
func (s *Sim) NumRunnable() int {
	s.Settle()
	return len(s.parked)
}

// Step lets one parked task run until it parks again, blocks or exits.
// It returns false if no task is runnable.
func (s *Sim) Step() bool {
	s.Settle()
	ids := s.runnable()
	if len(ids) == 0 {
		return false
	}
	id := ids[s.C.Choose("sched", len(ids))]
	q := s.Quanta[s.C.Choose("quantum", len(s.Quanta))]
	s.release(id, q)
	s.Settle()
	s.current.Store(nil)
	s.noteOutcome(id)
	return true
}

// restlessAfter: a task that was released this many times in a row and every
// time came back by parking at a yield point — it never blocked on anything —
// is from then on released with an unlimited quantum. A goroutine that spins
// (a retry loop without a wait, which a change to the program can introduce)
// then reaches the spin limit within one release and is reported as a
// livelock after SpinOuts releases, instead of eating the whole step budget a
// few statements at a time. A long legitimate computation only loses the
// preemption inside the rest of that computation. Controller-owned and a pure
// function of the schedule so far: replays are unaffected.
const restlessAfter = 3000

func (s *Sim) noteOutcome(id int) {
	t := s.alive[id]
	if t == nil {
		return
	}
	if _, parkedAgain := s.parked[id]; parkedAgain {
		t.restless++
	} else {
		t.restless = 0
	}
}

// StepTask releases a specific task (used by harnesses that need to force a
// particular order); false if it is not parked.
func (s *Sim) StepTask(id int, quantum int) bool {
	s.Settle()
	if _, ok := s.parked[id]; !ok {
		return false
	}
	s.release(id, quantum)
	s.Settle()
	s.current.Store(nil)
	s.noteOutcome(id)
	return true
}

//go:norace
func (s *Sim) release(id int, q int) {
	raceDisable()
	defer raceEnable()
	t := s.parked[id]
	site := s.parkSite[id]
	delete(s.parked, id)
	delete(s.parkSite, id)
	s.Steps++
	// schedule signature: sequence of (spawn site, park site)
	h := fnv.New64a()
	var b [20]byte
	put := func(o int, v uint64) {
		for i := 0; i < 8; i++ {
			b[o+i] = byte(v >> (8 * i))
		}
	}
	put(0, s.sig)
	put(8, uint64(uint32(t.spawn))<<32|uint64(uint32(site)))
	h.Write(b[:16])
	s.sig = h.Sum64()
	if s.lastRun != id {
		s.pairs[uint64(uint32(s.lastSite))<<32|uint64(uint32(site))] = struct{}{}
	}
	s.lastSite = site
	s.lastRun = id
	if t.restless >= restlessAfter {
		q = -1
	}
	if s.TraceOn && len(s.Trace) < 20000 {
		s.Trace = append(s.Trace, fmt.Sprintf("%d:t%d@%s q=%d", s.Steps, id, SiteName(site), q))
	}
	t.quantum = int64(q)
	t.spin = 0
	s.current.Store(t)
	t.wake <- struct{}{}
}

// Run steps until no task is runnable or max steps were taken; it reports
// whether the system became quiescent.
func (s *Sim) Run(max int) bool {
	for i := 0; i < max; i++ {
		if s.OverBudget() {
			return false
		}
		if !s.Step() {
			return true
		}
	}
	s.Settle()
	return len(s.parked) == 0
}

// RunUntil steps until cond holds (checked after every step, with all tasks
// stopped); false if the system went quiescent or max steps passed first.
func (s *Sim) RunUntil(cond func() bool, max int) bool {
	s.Settle()
	if cond() {
		return true
	}
	for i := 0; i < max; i++ {
		if s.OverBudget() || !s.Step() {
			return cond()
		}
		if cond() {
			return true
		}
	}
	return false
}

// OverBudget reports whether the run used up its scheduler-step budget, or a
// task is spinning without ever blocking (Livelock says which).
func (s *Sim) OverBudget() bool { return s.Steps >= s.MaxSteps || s.Livelock != "" }

// Advance moves the fake clock forward by d (timers that expire wake their
// goroutines, which then stop at their next yield point).
//
//go:norace
func (s *Sim) Advance(d time.Duration) {
	s.Settle()
	raceDisable()
	s.current.Store(nil)
	time.Sleep(d)
	raceEnable()
	s.Settle()
	if s.TraceOn && len(s.Trace) < 20000 {
		s.Trace = append(s.Trace, fmt.Sprintf("advance %v", d))
	}
}

// Go starts a harness task. A harness script is sequential: it starts a task,
// waits for it (run to quiescence) and then starts others that use what the
// first one built, which in the real program is plain program order. The
// scheduler's hand-offs are hidden from the race detector, so that order is
// given back explicitly: the end of every harness task happens-before the
// start of every harness task spawned later.
func (s *Sim) Go(name string, f func()) int {
	s.mustCtl()
	t := s.spawn(KHarness, name, func() {
		raceAcquire(&s.seqToken)
		defer raceReleaseMerge(&s.seqToken)
		f()
	})
	return t.id
}

// Live returns the tasks that have not exited.
func (s *Sim) Live() []TaskInfo {
	s.Settle()
	s.reapForeign()
	var out []TaskInfo
	for id, t := range s.alive {
		ti := TaskInfo{ID: id, Name: t.name, Spawn: SiteName(t.spawn), Foreign: t.foreign}
		if _, ok := s.parked[id]; ok {
			ti.Parked = true
			ti.Site = SiteName(s.parkSite[id])
		}
		out = append(out, ti)
	}
	sort.Slice(out, func(i, j int) bool { return out[i].ID < out[j].ID })
	return out
}

// reapForeign forgets goroutines the simulator did not start (so they cannot
// report their exit) that no longer exist, by looking at a full stack dump.
func (s *Sim) reapForeign() {
	any := false
	for id, t := range s.alive {
		if _, parked := s.parked[id]; t.foreign && !parked {
			any = true
		}
	}
	if !any {
		return
	}
	present := map[int64]bool{}
	buf := make([]byte, 1<<20)
	for {
		n := runtime.Stack(buf, true)
		if n < len(buf) {
			buf = buf[:n]
			break
		}
		buf = make([]byte, 2*len(buf))
	}
	for _, g := range strings.Split(string(buf), "\n\n") {
		var id int64
		if _, err := fmt.Sscanf(g, "goroutine %d ", &id); err == nil {
			present[id] = true
		}
	}
	for id, t := range s.alive {
		if _, parked := s.parked[id]; t.foreign && !parked && !present[t.goid] {
			delete(s.alive, id)
			s.tasks.Delete(t.goid)
			s.exited++
		}
	}
}

// Alive reports whether the task with the given id has not exited.
func (s *Sim) Alive(id int) bool {
	s.Settle()
	_, ok := s.alive[id]
	return ok
}

// Signature is a hash of the schedule so far.
func (s *Sim) Signature() uint64 { return s.sig }

// Pairs is the number of distinct (preempted site, resumed site) pairs.
func (s *Sim) Pairs() int { return len(s.pairs) }

// Counts returns (spawned, exited).
func (s *Sim) Counts() (int, int) { return s.spawned, s.exited }

// Drain tries to let every remaining task finish: it keeps stepping
// (lowest id first, unlimited quantum, no decisions consumed) until nothing
// is runnable. Used at the end of a run after shutdown was requested.
func (s *Sim) Drain(max int) {
	for i := 0; i < max; i++ {
		s.Settle()
		if s.Livelock != "" {
			return // a spinning task never finishes; leave it parked
		}
		ids := s.runnable()
		if len(ids) == 0 {
			return
		}
		sort.Ints(ids)
		s.release(ids[0], -1)
	}
	s.Settle()
}

// BubbleGoroutines parses a full stack dump and returns the headers + top
// frames of goroutines in the current bubble other than the caller.
func BubbleGoroutines() []string {
	buf := make([]byte, 1<<20)
	for {
		n := runtime.Stack(buf, true)
		if n < len(buf) {
			buf = buf[:n]
			break
		}
		buf = make([]byte, 2*len(buf))
	}
	var out []string
	me := fmt.Sprintf("goroutine %d ", Goid())
	for _, g := range strings.Split(string(buf), "\n\n") {
		if !strings.Contains(g, "synctest bubble") || strings.HasPrefix(g, me) {
			continue
		}
		out = append(out, g)
	}
	return out
}

// Harness-side helpers --------------------------------------------------------

// HYield is an explicit scheduling point for harness task code.
func HYield() { Yield(KHarness) }

// Send sends on a channel with scheduling points around it.
func Send[T any](ch chan<- T, v T) {
	Yield(KHarness)
	ch <- v
	Yield(KHarness)
}

// Recv receives from a channel with scheduling points around it.
func Recv[T any](ch <-chan T) (T, bool) {
	Yield(KHarness)
	v, ok := <-ch
	Yield(KHarness)
	return v, ok
}
