package simrt

import (
	"fmt"
	"sort"
)

// MapEntry is one step of a simulated map iteration.
type MapEntry[K comparable, V any] struct {
	k K
	m map[K]V
}

// Get returns the key, its current value and whether the key is still present
// (Go does not visit entries deleted during iteration).
func (e MapEntry[K, V]) Get() (K, V, bool) {
	v, ok := e.m[e.k]
	return e.k, v, ok
}

// MapIter replaces `range m` over a map: Go's iteration order is random and
// not seedable; this returns the keys present now in an order drawn from the
// run's Choices (stream "map"). Without a simulator the order is Go's.
func MapIter[M ~map[K]V, K comparable, V any](m M) []MapEntry[K, V] {
	out := make([]MapEntry[K, V], 0, len(m))
	for k := range m {
		out = append(out, MapEntry[K, V]{k, m})
	}
	s := S.Load()
	if s == nil || len(out) < 2 {
		return out
	}
	// canonical order first, then a seeded permutation
	if _, ok := any(out[0].k).(string); ok {
		sort.Slice(out, func(i, j int) bool { return any(out[i].k).(string) < any(out[j].k).(string) })
	} else {
		keys := make([]string, len(out))
		idx := make([]int, len(out))
		for i := range out {
			keys[i] = fmt.Sprintf("%v", out[i].k)
			idx[i] = i
		}
		sort.SliceStable(idx, func(a, b int) bool { return keys[idx[a]] < keys[idx[b]] })
		o2 := make([]MapEntry[K, V], len(out))
		for i, j := range idx {
			o2[i] = out[j]
		}
		out = o2
	}
	// Fisher-Yates from the choice stream; choice 0 everywhere = canonical order
	for i := 0; i < len(out)-1; i++ {
		j := i + s.C.Choose("map", len(out)-i)
		out[i], out[j] = out[j], out[i]
	}
	return out
}

// SelectStart picks which comm clause of a select gets the first try.
func SelectStart(site int32, n int) int {
	s := S.Load()
	if s == nil {
		return -1
	}
	s.yield(site)
	return s.C.Choose("select", n)
}
