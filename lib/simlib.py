"""Driver library for /verif/check: build the instrumented tree, fan seeds out
over worker processes, aggregate, minimise, replay, write evidence."""
import glob
import hashlib
import json
import os
import shutil
import subprocess
import sys
import tempfile
import time

VERIF = os.path.dirname(os.path.dirname(os.path.abspath(__file__)))
REPO = os.environ.get("VERIF_REPO", "/repo")
GOROOT_NEW = "/opt/veriftools/go1.26.8"
CACHE = os.path.join(os.environ.get("XDG_CACHE_HOME", os.path.expanduser("~/.cache")), "verif-sim")

sys.path.insert(0, os.path.join(VERIF, "lib"))
from props import PROPS  # noqa: E402


class Machinery(Exception):
    pass


def goenv():
    env = dict(os.environ)
    env.update({
        "GOFLAGS": "-mod=mod", "GOPROXY": "off", "GOSUMDB": "off", "GOTOOLCHAIN": "local",
        "GONOSUMDB": "*", "GONOSUMCHECK": "1", "GOWORK": "off",
        "PATH": GOROOT_NEW + "/bin:" + env.get("PATH", ""),
    })
    env.pop("GOROOT", None)
    return env


def sh(cmd, cwd=None, env=None, timeout=1800):
    p = subprocess.run(cmd, cwd=cwd, env=env, stdout=subprocess.PIPE, stderr=subprocess.STDOUT, timeout=timeout, text=True)
    return p.returncode, p.stdout


def file_digest(h, path, rel):
    h.update(rel.encode())
    h.update(b"\0")
    try:
        with open(path, "rb") as f:
            h.update(f.read())
    except OSError:
        h.update(b"<unreadable>")
    h.update(b"\0")


def tree_hash(flavour):
    h = hashlib.sha256()
    h.update(flavour.encode())
    for base, tag in ((REPO, "repo"), (os.path.join(VERIF, "simrt"), "simrt"), (os.path.join(VERIF, "simgo"), "simgo"),
                      (os.path.join(VERIF, "harness"), "harness")):
        for root, dirs, files in os.walk(base):
            dirs[:] = sorted(d for d in dirs if d not in (".git", "testdata", "docs", "examples", "hooks"))
            for fn in sorted(files):
                if fn.endswith((".go", ".s", ".mod", ".sum", ".y")):
                    p = os.path.join(root, fn)
                    file_digest(h, p, tag + "/" + os.path.relpath(p, base))
    return h.hexdigest()[:24]


def build_simgo(log):
    """Build the instrumenter (cached by source hash)."""
    h = hashlib.sha256()
    for fn in sorted(os.listdir(os.path.join(VERIF, "simgo"))):
        if fn.endswith((".go", ".mod", ".sum")):
            file_digest(h, os.path.join(VERIF, "simgo", fn), fn)
    d = os.path.join(CACHE, "simgo-" + h.hexdigest()[:16])
    exe = os.path.join(d, "simgo")
    if os.path.exists(exe):
        return exe
    os.makedirs(d, exist_ok=True)
    tmp = exe + ".tmp%d" % os.getpid()
    rc, out = sh(["go", "build", "-o", tmp, "."], cwd=os.path.join(VERIF, "simgo"), env=goenv())
    if rc != 0:
        raise Machinery("building simgo failed:\n" + out)
    os.replace(tmp, exe)
    return exe


def prune_cache(keep=6, min_age_s=3 * 3600):
    """Drop old build trees: beyond the `keep` most recently used ones, and only when not used for a few hours
    (another check running at the same time — e.g. against a patched copy of the tree — may be executing one)."""
    try:
        ents = [os.path.join(CACHE, e) for e in os.listdir(CACHE) if e.startswith("tree-")]
        ents.sort(key=lambda p: os.path.getmtime(p), reverse=True)
        now = time.time()
        for p in ents[keep:]:
            if now - os.path.getmtime(p) > min_age_s:
                shutil.rmtree(p, ignore_errors=True)
    except OSError:
        pass


def build(flavour="plain", log=print):
    """Instrument a scratch copy of /repo's working tree and build the harness.
    Returns the path of the test binary. flavour: plain | race."""
    th = tree_hash(flavour)
    d = os.path.join(CACHE, "tree-" + th)
    exe = os.path.join(d, "sim.test")
    if os.path.exists(exe) and not os.environ.get("VERIF_NOCACHE"):
        os.utime(d)
        return exe
    t0 = time.time()
    simgo = build_simgo(log)
    scratch = tempfile.mkdtemp(prefix="verif-build-")
    try:
        rc, out = sh(["rsync", "-a", "--exclude", ".git", REPO + "/", scratch + "/"])
        if rc != 0:
            raise Machinery("rsync failed:\n" + out)
        os.makedirs(os.path.join(scratch, "internal", "simrt"))
        for fn in os.listdir(os.path.join(VERIF, "simrt")):
            if fn.endswith((".go", ".s")):
                shutil.copy(os.path.join(VERIF, "simrt", fn), os.path.join(scratch, "internal", "simrt", fn))
        os.makedirs(os.path.join(scratch, "verifsim"))
        for fn in os.listdir(os.path.join(VERIF, "harness")):
            if fn.endswith(".go"):
                shutil.copy(os.path.join(VERIF, "harness", fn), os.path.join(scratch, "verifsim", fn))
        # generated accessors (add-only files, guarded by the verif build tag)
        acc = os.path.join(VERIF, "harness", "accessors")
        if os.path.isdir(acc):
            for fn in os.listdir(acc):
                # name: <pkgdir with __ for />___<file>.go
                if "___" in fn:
                    pkgdir, base = fn.split("___", 1)
                    dst = os.path.join(scratch, pkgdir.replace("__", "/"), base)
                    shutil.copy(os.path.join(acc, fn), dst)
        env = goenv()
        # extra requirements of the harness (cached modules only)
        for req in ("github.com/anishathalye/porcupine@v1.3.0",):
            rc, out = sh(["go", "mod", "edit", "-require=" + req], cwd=scratch, env=env)
            if rc != 0:
                raise Machinery("go mod edit failed:\n" + out)
        rc, out = sh([simgo, "-root", scratch], cwd=scratch, env=env)
        if rc != 0:
            raise Machinery("simgo failed on the current tree:\n" + out)
        log("  " + out.strip().splitlines()[-1])
        os.makedirs(d, exist_ok=True)
        tmp = exe + ".tmp%d" % os.getpid()
        cmd = ["go", "test", "-c", "-tags", "verif", "-trimpath", "-o", tmp]
        if flavour == "race":
            cmd.append("-race")
        cmd.append("./verifsim")
        rc, out = sh(cmd, cwd=scratch, env=env)
        if rc != 0:
            raise Machinery("building the instrumented tree + harness failed:\n" + out)
        os.replace(tmp, exe)
        log("  built %s harness in %.1fs" % (flavour, time.time() - t0))
    finally:
        if os.environ.get("VERIF_KEEP_SCRATCH"):
            log("  scratch kept: " + scratch)
        else:
            shutil.rmtree(scratch, ignore_errors=True)
    prune_cache()
    return exe


# --------------------------------------------------------------------------

def run_workers(exe, prop, tier, seeds_per_worker, first_seed, nworkers, extra_env, workdir, wall=None, stop_at=1):
    procs = []
    for i in range(nworkers):
        n = seeds_per_worker[i]
        if n == 0:
            continue
        env = dict(os.environ)
        env.update(extra_env)
        start = first_seed + sum(seeds_per_worker[:i])
        env.update({
            "VERIF_PROP": prop, "VERIF_TIER": tier, "VERIF_SEEDS": "%d:%d" % (start, n),
            "VERIF_OUT": os.path.join(workdir, "out-%d.jsonl" % i), "VERIF_TMP": workdir,
            "VERIF_STOP_AT": str(stop_at), "GOMAXPROCS": env.get("VERIF_GOMAXPROCS", "2"),
            "GOTRACEBACK": "all",
        })
        if wall:
            env["VERIF_WALL_S"] = str(wall)
        env["VERIF_RACELOG"] = os.path.join(workdir, "race-%d" % i)
        env["GORACE"] = "log_path=%s halt_on_error=0 history_size=4" % env["VERIF_RACELOG"]
        errf = open(os.path.join(workdir, "err-%d.log" % i), "w")
        p = subprocess.Popen([exe, "-test.run", "^TestWorker$", "-test.timeout", "0"], env=env, stdout=errf, stderr=errf, cwd=workdir)
        procs.append((i, p, errf))
    results = []
    crashed = []
    for i, p, errf in procs:
        rc = p.wait()
        errf.close()
        out = os.path.join(workdir, "out-%d.jsonl" % i)
        if os.path.exists(out):
            with open(out) as f:
                for line in f:
                    line = line.strip()
                    if line:
                        try:
                            results.append(json.loads(line))
                        except ValueError:
                            pass
        if rc != 0:
            with open(os.path.join(workdir, "err-%d.log" % i)) as f:
                tail = f.read()[-6000:]
            # in race builds `testing` fails the test when the detector has reported anything;
            # the reports themselves are judged per run by the worker (race log)
            if rc == 1 and "race detected during execution of test" in tail and "panic:" not in tail and "fatal error" not in tail:
                continue
            crashed.append((i, rc, tail))
    return results, crashed


def run_replay(exe, replay, workdir, tag, trace=False, timeout=600):
    path = os.path.join(workdir, "replay-%s.json" % tag)
    with open(path, "w") as f:
        json.dump(replay, f)
    out = os.path.join(workdir, "replay-%s.out" % tag)
    env = dict(os.environ)
    env.update({"VERIF_PROP": replay["property"], "VERIF_REPLAY": path, "VERIF_OUT": out, "VERIF_TMP": workdir,
                "GOMAXPROCS": env.get("VERIF_GOMAXPROCS", "2")})
    env["VERIF_RACELOG"] = os.path.join(workdir, "race-replay-%s" % tag)
    env["GORACE"] = "log_path=%s halt_on_error=0 history_size=4" % env["VERIF_RACELOG"]
    if trace:
        env["VERIF_TRACE"] = "1"
    try:
        p = subprocess.run([exe, "-test.run", "^TestWorker$", "-test.timeout", "0"], env=env, stdout=subprocess.PIPE,
                           stderr=subprocess.STDOUT, cwd=workdir, timeout=timeout, text=True)
    except subprocess.TimeoutExpired:
        return None
    try:
        with open(out) as f:
            line = f.readline()
        return json.loads(line)
    except (OSError, ValueError):
        return {"ok": True, "machinery": "replay produced no result (rc=%d): %s" % (p.returncode, p.stdout[-2000:])}


def crash_info(tail):
    """Parse the stderr of a crashed worker: (seed of the last run started, first line of the panic, innermost mtail frame)."""
    import re
    seed = None
    for m in re.finditer(r"@@RUN prop=\S+ seed=(\d+)", tail):
        seed = int(m.group(1))
    msg = None
    frame = None
    lines = tail.splitlines()
    for i, l in enumerate(lines):
        if l.startswith("panic: ") or l.startswith("fatal error: "):
            msg = l.strip()
            for k in lines[i + 1:i + 60]:
                k = k.strip()
                if k.startswith("github.com/google/mtail/internal/") and "/simrt." not in k and "/verifsim." not in k:
                    frame = k.split("(")[0].replace("github.com/google/mtail/internal/", "")
                    break
                if k.startswith("github.com/google/mtail/verifsim."):
                    break
            break
    return seed, msg, frame


def replay_until(exe, rp, workdir, tag, cls, tries, trace=False):
    """Replay up to `tries` times (fresh process each) until the class reproduces. Race verdicts need this: the
    schedule replays exactly, but ThreadSanitizer keeps a bounded, randomly evicted access history, so a racy
    schedule is reported in only a fraction of its executions."""
    last = None
    for k in range(tries):
        r = run_replay(exe, rp, workdir, "%s-%d" % (tag, k), trace=trace)
        last = r
        if r and not r.get("machinery") and not r.get("ok") and r.get("class") == cls:
            return r, k + 1
    return last, tries


def load_known():
    p = os.path.join(VERIF, "known_findings.json")
    if not os.path.exists(p):
        return []
    with open(p) as f:
        return json.load(f).get("findings", [])


def match_known(prop, cls, known):
    for k in known:
        if k.get("property") != prop or k.get("status") != "known":
            continue
        kc = k.get("class", "")
        if kc == cls or (kc.endswith("*") and cls.startswith(kc[:-1])):
            return k
    return None


def tapes_size(t):
    return sum(len(v) for v in t.values()), sum(sum(1 for x in v if x) for v in t.values())


def minimise(exe, prop, tier, viol, workdir, budget_s=150, log=print):
    """Shrink the choice tapes of a failing run while the same violation class
    persists. Returns (replay dict, result dict)."""
    cls = viol["class"]
    seed = viol["seed"]
    tapes = {k: list(v) for k, v in (viol.get("tapes") or {}).items()}
    base = {"property": prop, "class": cls, "seed": seed, "tier": tier, "tapes": tapes}
    r0 = run_replay(exe, base, workdir, "confirm")
    if r0 is None or r0.get("machinery"):
        raise Machinery("replay of seed %d failed: %s" % (seed, (r0 or {}).get("machinery", "timeout")))
    if r0.get("ok") or r0.get("class") != cls:
        raise Machinery("violation %s of seed %d did not reproduce from its decision log (got ok=%s class=%s): nondeterminism"
                        % (cls, seed, r0.get("ok"), r0.get("class")))
    best, best_res = base, r0
    t_end = time.time() + budget_s
    counter = [0]

    def attempt(cands):
        """Run candidate tape sets in parallel; return list of (tapes, res) that still fail with cls."""
        procs = []
        good = []
        import concurrent.futures
        with concurrent.futures.ThreadPoolExecutor(max_workers=16) as ex:
            futs = []
            for c in cands:
                counter[0] += 1
                rp = {"property": prop, "class": cls, "seed": seed, "tier": tier, "tapes": c}
                futs.append((c, ex.submit(run_replay, exe, rp, workdir, "m%d" % counter[0], False, 300)))
            for c, f in futs:
                r = f.result()
                if r and not r.get("machinery") and not r.get("ok") and r.get("class") == cls:
                    good.append((c, r))
        return good

    order = sorted(tapes.keys(), key=lambda k: (0 if k in ("knob", "gen", "env", "fault", "io") else 1, k))
    changed = True
    rounds = 0
    while changed and time.time() < t_end and rounds < 4:
        changed = False
        rounds += 1
        for k in order:
            if time.time() > t_end:
                break
            cur = best["tapes"]
            t = cur.get(k, [])
            if not t:
                continue
            # 1. truncation (the rest of the stream becomes 0 = simplest)
            lens = sorted(set([0, 1, 2, 3, len(t) // 16, len(t) // 8, len(t) // 4, len(t) // 2, (3 * len(t)) // 4, len(t) - 1]))
            lens = [x for x in lens if 0 <= x < len(t)]
            cands = []
            for L in lens:
                c = dict(cur)
                c[k] = t[:L]
                cands.append(c)
            good = attempt(cands)
            if good:
                good.sort(key=lambda cr: len(cr[0][k]))
                best = dict(best, tapes=good[0][0])
                best_res = good[0][1]
                changed = True
                cur = best["tapes"]
                t = cur[k]
            # 2. zero blocks of non-zero entries
            nz = [i for i, x in enumerate(t) if x]
            if nz and time.time() < t_end:
                blocks = 8 if len(nz) > 8 else len(nz)
                size = (len(nz) + blocks - 1) // blocks
                cands = []
                for b in range(blocks):
                    idxs = nz[b * size:(b + 1) * size]
                    if not idxs:
                        continue
                    c = dict(cur)
                    tt = list(t)
                    for i in idxs:
                        tt[i] = 0
                    c[k] = tt
                    cands.append(c)
                good = attempt(cands)
                if good:
                    # merge all successful zeroings greedily
                    merged = list(t)
                    for c, _ in good:
                        for i, x in enumerate(c[k]):
                            if x == 0:
                                merged[i] = 0
                    c = dict(cur)
                    c[k] = merged
                    g2 = attempt([c])
                    if g2:
                        best = dict(best, tapes=g2[0][0])
                        best_res = g2[0][1]
                    else:
                        best = dict(best, tapes=good[0][0])
                        best_res = good[0][1]
                    changed = True
            # 3. for generation streams: delete single elements / halve values
            cur = best["tapes"]
            t = cur.get(k, [])
            if k in ("gen", "env", "fault") and 0 < len(t) <= 64 and time.time() < t_end:
                cands = []
                for i in range(len(t)):
                    c = dict(cur)
                    c[k] = t[:i] + t[i + 1:]
                    cands.append(c)
                good = attempt(cands)
                if good:
                    best = dict(best, tapes=good[0][0])
                    best_res = good[0][1]
                    changed = True
    # strip trailing zeros
    final = {k: v for k, v in best["tapes"].items()}
    for k in list(final.keys()):
        v = list(final[k])
        while v and v[-1] == 0:
            v.pop()
        final[k] = v
    cand = dict(best, tapes=final)
    g = attempt([cand["tapes"]])
    if g:
        best = dict(best, tapes=g[0][0])
        best_res = g[0][1]
    best["msg"] = best_res.get("msg", "")
    log("  minimised: %d decisions (%d non-zero) -> %d (%d non-zero) in %d replays" %
        (tapes_size(tapes) + tapes_size(best["tapes"]) + (counter[0],)))
    return best, best_res


def write_evidence(prop, tier, seed, cfg, agg, wall, violations):
    os.makedirs(os.path.join(VERIF, "evidence"), exist_ok=True)
    cov = {
        "evaluations": agg["evals"],
        "distinct_nontrivial": agg["distinct_nontrivial"],
        "rule": cfg["rule"],
        "samples": agg["samples"][:5] or [{"note": "no sample recorded"}],
        "exhaustive": bool(cfg.get("exhaustive")) and agg["complete"],
        "simulated_runs": agg["runs"],
        "seeds": {"first": agg["first_seed"], "count": agg["runs"]},
        "runs_per_hour": int(agg["runs"] / max(wall, 1e-3) * 3600),
        "seeds_per_hour": int(agg["runs"] / max(wall, 1e-3) * 3600),
        "sim_time_covered_s": round(agg["sim_ns"] / 1e9, 3),
        "scheduler_steps": agg["steps"],
        "decisions": agg["decisions"],
        "tasks_spawned": agg["tasks"],
        "distinct_schedule_signatures": agg["sigs"],
        "preemption_pairs_max_per_run": agg["pairs"],
        "faults_fired": agg["faults"],
        "probes": agg["probes"],
        "probes_at_zero": [p for p in cfg.get("expect_probes", []) if not agg["probes"].get(p)],
        "components": {"real": cfg.get("real", []), "stub": cfg.get("stub", [])},
        "determinism_recheck": agg.get("recheck", {}),
        "known_findings_hit": agg.get("known_hit", {}),
    }
    if agg.get("extra"):
        cov.update(agg["extra"])
    ev = {
        "property_id": prop, "tier": tier, "seed": seed, "level": cfg["level"], "coverage": cov,
        "assumptions": cfg.get("assumptions", []), "wall_s": round(wall, 2), "violations": violations,
    }
    with open(os.path.join(VERIF, "evidence", prop + ".json"), "w") as f:
        json.dump(ev, f, indent=1, sort_keys=True)
        f.write("\n")


def aggregate(results):
    agg = dict(evals=0, runs=0, steps=0, sim_ns=0, decisions=0, tasks=0, pairs=0, faults={}, probes={}, samples=[],
               distinct_nontrivial=0, sigs=0, complete=True, first_seed=None, extra={})
    keys = {}
    sigs = set()
    for r in results:
        agg["runs"] += 1
        agg["evals"] += r.get("evals", 1)
        agg["steps"] += r.get("steps", 0)
        agg["sim_ns"] += r.get("sim_ns", 0)
        agg["decisions"] += r.get("decisions", 0)
        agg["tasks"] += r.get("tasks", 0)
        agg["pairs"] = max(agg["pairs"], r.get("pairs", 0))
        if agg["first_seed"] is None or r["seed"] < agg["first_seed"]:
            agg["first_seed"] = r["seed"]
        for k, v in (r.get("faults") or {}).items():
            agg["faults"][k] = agg["faults"].get(k, 0) + v
        for k, v in (r.get("probes") or {}).items():
            agg["probes"][k] = agg["probes"].get(k, 0) + v
        sigs.add(r.get("sig"))
        if r.get("nontrivial"):
            key = r.get("key") or ("sig:" + str(r.get("sig")))
            d = r.get("distinct") or 1
            if key not in keys:
                keys[key] = d
        if r.get("sample") is not None and len(agg["samples"]) < 5:
            agg["samples"].append(r["sample"])
    agg["distinct_nontrivial"] = sum(keys.values())
    agg["sigs"] = len(sigs)
    return agg


def run_check(args, seed, t0):
    prop = args.prop
    if prop not in PROPS:
        raise Machinery("no check for property %s (claimed: %s)" % (prop, ", ".join(sorted(PROPS))))
    cfg = PROPS[prop]
    tier = args.tier
    tcfg = cfg[tier]
    flavour = tcfg.get("flavour", cfg.get("flavour", "plain"))
    print("check %s tier=%s seed=%d" % (prop, tier, seed))
    exe = build(flavour)
    workdir = tempfile.mkdtemp(prefix="verif-run-")
    try:
        if args.replay:
            with open(args.replay) as f:
                rp = json.load(f)
            if rp.get("by_seed"):
                path = os.path.join(workdir, "replay-crash.json")
                with open(path, "w") as f:
                    json.dump(rp, f)
                env = dict(os.environ)
                env.update(tcfg.get("env", {}))
                env.update({"VERIF_PROP": prop, "VERIF_REPLAY": path, "VERIF_OUT": os.path.join(workdir, "crash.out"), "VERIF_TMP": workdir})
                p2 = subprocess.run([exe, "-test.run", "^TestWorker$", "-test.timeout", "0"], env=env, stdout=subprocess.PIPE, stderr=subprocess.STDOUT, cwd=workdir, text=True)
                s2, m2, f2 = crash_info(p2.stdout)
                if p2.returncode != 0 and m2 and ("crash:" + m2[:120]) == rp.get("class"):
                    print("replayed: the process dies again: %s (in %s)" % (m2, f2))
                    print("VIOLATION property=%s replay=%s" % (prop, os.path.abspath(args.replay)))
                    return 1
                print("replay: the process did not die the recorded way (rc=%d, %s)" % (p2.returncode, m2))
                return 0
            if str(rp.get("class", "")).startswith("race:"):
                r, n = replay_until(exe, rp, workdir, "user", rp["class"], 8, trace=True)
                print("(race verdict: the schedule was replayed %d time(s))" % n)
            else:
                r = run_replay(exe, rp, workdir, "user", trace=True)
            if r is None or r.get("machinery"):
                raise Machinery("replay failed: %s" % ((r or {}).get("machinery", "timeout")))
            if not r.get("ok"):
                print("replayed: class=%s\n  %s" % (r.get("class"), r.get("msg")))
                if r.get("class") == rp.get("class"):
                    print("VIOLATION property=%s replay=%s" % (prop, os.path.abspath(args.replay)))
                    return 1
                print("replay produced a different class than recorded (%s)" % rp.get("class"))
                return 1
            print("replay: property held (violation did not reproduce)")
            return 0

        runs = args.runs or tcfg["runs"]
        nworkers = max(1, min(args.workers, runs))
        per = [runs // nworkers + (1 if i < runs % nworkers else 0) for i in range(nworkers)]
        first_seed = seed * 1000003 if not cfg.get("exhaustive") else seed * runs * 1009
        extra_env = dict(tcfg.get("env", {}))
        known = load_known()
        avoid = sorted({t for k in known if k.get("property") == prop and k.get("status") == "known" for t in k.get("avoid", [])})
        if avoid:
            extra_env["VERIF_AVOID"] = ",".join(avoid)
        stop_at = 1000000 if any(k.get("property") == prop and k.get("status") == "known" for k in known) else 1
        results, crashed = run_workers(exe, prop, tier, per, first_seed, nworkers, extra_env, workdir,
                                       wall=args.wall or tcfg.get("wall"), stop_at=stop_at)
        crash_viol = None
        if crashed:
            i, rc, tail = crashed[0]
            # full stderr of that worker
            with open(os.path.join(workdir, "err-%d.log" % i)) as f:
                full = f.read()
            cseed, cmsg, cframe = crash_info(full)
            if cseed is None or cmsg is None or cframe is None:
                raise Machinery("worker %d exited with status %d:\n%s" % (i, rc, tail))
            # a panic / fatal error inside mtail code took the process down: confirm it by running that seed alone
            cls = "crash:" + cmsg[:120]
            rp = {"property": prop, "class": cls, "seed": cseed, "tier": tier, "by_seed": True, "tapes": None,
                  "msg": "the process died in mtail code (%s): %s" % (cframe, cmsg)}
            path = os.path.join(workdir, "replay-crash.json")
            with open(path, "w") as f:
                json.dump(rp, f)
            env = dict(os.environ)
            env.update(extra_env)
            env.update({"VERIF_PROP": prop, "VERIF_REPLAY": path, "VERIF_OUT": os.path.join(workdir, "crash.out"), "VERIF_TMP": workdir})
            p2 = subprocess.run([exe, "-test.run", "^TestWorker$", "-test.timeout", "0"], env=env, stdout=subprocess.PIPE, stderr=subprocess.STDOUT, cwd=workdir, text=True)
            s2, m2, f2 = crash_info(p2.stdout)
            if p2.returncode == 0 or m2 != cmsg:
                raise Machinery("worker %d crashed at seed %s (%s in %s) but the seed alone does not crash the same way (rc=%d %s):\n%s" % (i, cseed, cmsg, cframe, p2.returncode, m2, tail))
            crash_viol = (cls, rp, cframe, cmsg)
        mach = [r for r in results if r.get("machinery")]
        if mach:
            raise Machinery("run seed=%d: %s" % (mach[0]["seed"], mach[0]["machinery"]))
        agg = aggregate(results)
        agg["complete"] = agg["runs"] == runs
        # cross-process determinism recheck of a few seeds
        nre = tcfg.get("recheck", cfg.get("recheck", 3))
        okres = [r for r in results if r.get("ok")]
        step = max(1, len(okres) // max(nre, 1))
        picks = okres[::step][:nre] if nre else []
        mism = 0
        for r in picks:
            env_seed = r["seed"]
            rr, cr = run_workers(exe, prop, tier, [1], env_seed, 1, dict(extra_env, VERIF_GOMAXPROCS="4"), workdir)
            if cr or not rr:
                raise Machinery("determinism recheck of seed %d crashed: %s" % (env_seed, cr[0][2] if cr else "no result"))
            if rr[0].get("trace_hash") != r.get("trace_hash") or rr[0].get("sig") != r.get("sig"):
                mism += 1
                raise Machinery("nondeterminism: seed %d gave trace %s/%s then %s/%s in a second process" %
                                (env_seed, r.get("trace_hash"), r.get("sig"), rr[0].get("trace_hash"), rr[0].get("sig")))
        agg["recheck"] = {"seeds_rerun_in_fresh_process": len(picks), "mismatches": mism}

        viols = [r for r in results if not r.get("ok")]
        new = []
        known_hit = {}
        for v in viols:
            k = match_known(prop, v.get("class", ""), known)
            if k:
                known_hit.setdefault(k["class"], [0, k])[0] += 1
            else:
                new.append(v)
        agg["known_hit"] = {c: n for c, (n, _) in known_hit.items()}
        for c, (n, k) in sorted(known_hit.items()):
            print("KNOWN-FINDING: property=%s %s %s (hit by %d of %d runs)" % (prop, c, k.get("what", ""), n, agg["runs"]))
        wall = time.time() - t0
        if crash_viol and not match_known(prop, crash_viol[0], known):
            cls, rp, cframe, cmsg = crash_viol
            os.makedirs(os.path.join(VERIF, "replays", prop), exist_ok=True)
            path = os.path.join(VERIF, "replays", prop, "%d-crash.json" % rp["seed"])
            with open(path, "w") as f:
                json.dump(rp, f, indent=1, sort_keys=True)
                f.write("\n")
            print("violation: class=%s seed=%d\n  the worker process died inside mtail code (%s); the seed alone reproduces it" % (cls, rp["seed"], cframe))
            print("VIOLATION property=%s replay=%s" % (prop, path))
            if not args.no_evidence:
                write_evidence(prop, tier, seed, cfg, agg, wall, 1)
            return 1
        if not new:
            if not args.no_evidence:
                write_evidence(prop, tier, seed, cfg, agg, wall, 0)
            print("ok: %d runs, %d cases, %d distinct non-trivial, %d steps, %.1fs" %
                  (agg["runs"], agg["evals"], agg["distinct_nontrivial"], agg["steps"], wall))
            zero = [p for p in cfg.get("expect_probes", []) if not agg["probes"].get(p)]
            if zero:
                print("warning: probes at zero: %s" % ", ".join(zero))
            return 0
        # pick one violation per class, smallest decision count first
        byclass = {}
        for v in new:
            c = v.get("class", "")
            if c not in byclass or v.get("decisions", 0) < byclass[c].get("decisions", 0):
                byclass[c] = v
        rc = 0
        os.makedirs(os.path.join(VERIF, "replays", prop), exist_ok=True)
        for c, v in sorted(byclass.items()):
            print("violation candidate: class=%s seed=%d\n  %s" % (c, v["seed"], (v.get("msg") or "")[:1500]))
            israce = c.startswith("race:")
            if args.no_minimise or israce:
                rp = {"property": prop, "class": c, "seed": v["seed"], "tier": tier, "tapes": v.get("tapes") or {}, "msg": v.get("msg", "")}
                if israce:
                    r0, _ = replay_until(exe, rp, workdir, "confirm", c, 8)
                else:
                    r0 = run_replay(exe, rp, workdir, "confirm")
                if r0 is None or r0.get("ok") or r0.get("class") != c:
                    raise Machinery("violation %s seed %d did not reproduce on replay" % (c, v["seed"]))
            else:
                rp, res = minimise(exe, prop, tier, v, workdir, budget_s=tcfg.get("min_budget", 150))
            path = os.path.join(VERIF, "replays", prop, "%d-%s.json" % (v["seed"], "".join(ch if ch.isalnum() else "_" for ch in c)[:60]))
            with open(path, "w") as f:
                json.dump(rp, f, indent=1, sort_keys=True)
                f.write("\n")
            # final confirmation in a fresh process from the written file
            with open(path) as f:
                rp2 = json.load(f)
            if israce:
                r, _ = replay_until(exe, rp2, workdir, "final", c, 8, trace=True)
            else:
                r = run_replay(exe, rp2, workdir, "final", trace=True)
            if r is None or r.get("ok") or r.get("class") != c:
                raise Machinery("minimised replay of %s did not reproduce" % path)
            print("  minimal failing run: %s" % (r.get("msg") or "")[:3000])
            print("VIOLATION property=%s replay=%s" % (prop, path))
            rc = 1
        if not args.no_evidence:
            write_evidence(prop, tier, seed, cfg, agg, time.time() - t0, len(byclass))
        return rc
    finally:
        if args.keep or os.environ.get("VERIF_KEEP_SCRATCH"):
            print("scratch kept: " + workdir)
        else:
            shutil.rmtree(workdir, ignore_errors=True)
