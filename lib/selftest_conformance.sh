#!/bin/sh
# Self-test 6.3: the in-memory transport agrees with real loopback tcp/unix/udp/unixgram sockets on the scripted scenarios.
EXE=$(/verif/lib/devbuild.sh 2>/dev/null | tail -1)
cd /tmp && VERIF_CONFORMANCE=1 "$EXE" -test.run '^TestSimnetConformance$' -test.v
