#!/bin/sh
# confirm deliveries of one wave: usage confirm_wave.sh <worktree-suffix> <first-index> PROP...
#   wave 3: suffix x, ids continue after -a,-b (first-index 2 -> c,d,e); wave 4: suffix y, first index = number already kept
SUF=$1; START=$2; shift 2
for P in "$@"; do
  i=$START
  [ "$START" = auto ] && i=$(ls -d /verif/seeded/$P-* 2>/dev/null | wc -l)
  for d in /tmp/wt/${P}${SUF}/deliver/change*; do
    [ -d "$d" ] || continue
    i=$((i+1))
    id="$P-$(echo $i | tr 123456789 abcdefghi)"
    echo "=== $id ($d)"
    /verif/lib/confirm_seeded.py "$d" "$id" "$P" > /tmp/confirm-$id.json 2>&1
    python3 - "$id" <<'PY'
import json,sys
t=open('/tmp/confirm-%s.json'%sys.argv[1]).read()
try:
    j=json.loads(t[:t.rindex('}')+1])
    print(' confirmed=%s demo: without %s / with %s; suite_ok=%s; check_exit=%s %s' % (j.get('confirmed'), j.get('demo_without_change'), j.get('demo_with_change'), j.get('suite_ok'), j.get('check_exit'), (j.get('check_output') or [''])[-1][:200]))
except Exception as e:
    print(' ERROR', e, t[-800:])
PY
  done
done
