#!/usr/bin/env python3
"""Run the repository's test suite (default Go toolchain, hooks off) in a tree
and compare the passing set with /root/.vp/BASELINE.json's stable_pass.
usage: baseline_check.py [tree=/repo]   exit 0 iff every stable test passed."""
import json, os, subprocess, sys
tree = sys.argv[1] if len(sys.argv) > 1 else "/repo"
base = json.load(open("/root/.vp/BASELINE.json"))
stable = set(base["stable_pass"])
env = dict(os.environ, GOFLAGS="-mod=mod", GOPROXY="off", GOSUMDB="off")
p = subprocess.run(["go", "test", "-json", "-vet=off", "-count=1", "-timeout", "25m", "./..."], cwd=tree, env=env,
                   stdout=subprocess.PIPE, stderr=subprocess.STDOUT, text=True)
passed = set(); failed = set()
for line in p.stdout.splitlines():
    try:
        ev = json.loads(line)
    except ValueError:
        continue
    if ev.get("Test") and ev.get("Action") in ("pass", "fail"):
        (passed if ev["Action"] == "pass" else failed).add(ev["Package"] + "::" + ev["Test"])
missing = sorted(stable - passed)
print("passed=%d failed=%d stable=%d stable_not_passed=%d" % (len(passed), len(failed), len(stable), len(missing)))
for m in missing[:40]:
    print("  NOT PASSED:", m)
extra_fail = sorted(failed - set(base.get("always_fail", [])))
for m in extra_fail[:40]:
    print("  FAILED (not in baseline always_fail):", m)
sys.exit(0 if not missing else 1)
