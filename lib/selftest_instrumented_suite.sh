#!/bin/sh
# Self-test 6.1: the simgo-instrumented tree, with no simulator installed (every
# inserted call is a pass-through), must still pass mtail's own test suite.
set -e
export GOFLAGS=-mod=mod GOPROXY=off GOSUMDB=off GOTOOLCHAIN=local PATH=/opt/veriftools/go1.26.8/bin:$PATH
D=$(mktemp -d /tmp/verif-selftest-XXXX)
trap 'rm -rf "$D"' EXIT
rsync -a --exclude .git /repo/ "$D"/
mkdir -p "$D/internal/simrt"
cp /verif/simrt/*.go /verif/simrt/*.s "$D/internal/simrt/"
SIMGO=$(python3 -c "import sys; sys.path.insert(0,'/verif/lib'); import simlib; print(simlib.build_simgo(print))")
(cd "$D" && "$SIMGO" -root "$D")
# test files name the mutex type in go-cmp options; follow the type replacement there too
for f in $(grep -rl "sync.RWMutex{}" --include=*_test.go "$D/internal"); do
  sed -i 's/sync\.RWMutex{}/simrt.RWMutex{}/g' "$f"
  sed -i '0,/^package .*/s//&\nimport simrt "github.com\/google\/mtail\/internal\/simrt"/' "$f"
  printf '\nvar _ sync.Locker\n' >> "$f"
done
cd "$D" && go test -vet=off -count=1 -timeout 25m ./... 2>&1 | grep -v "^ok\|no test files" | grep "^FAIL\|^--- FAIL\|panic" | sort | uniq -c | head -30
echo "instrumented-suite: done"
