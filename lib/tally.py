#!/usr/bin/env python3
"""dev helper: tally result classes of a worker output file"""
import json, collections, sys
c = collections.Counter(); ex = {}
for l in open(sys.argv[1]):
    r = json.loads(l)
    if r.get('machinery'):
        c['MACH'] += 1; ex.setdefault('MACH', r['machinery'][:1500])
    elif not r['ok']:
        c[r['class']] += 1; ex.setdefault(r['class'], (r['seed'], r['msg'][:int(sys.argv[2]) if len(sys.argv) > 2 else 300]))
    else:
        c['ok'] += 1
for k, v in c.most_common():
    print(v, k, ex.get(k, ''))
