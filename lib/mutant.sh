#!/bin/sh
# usage: mutant.sh <patch> <PROP> [check args...] — apply a patch to /repo, run the check, undo the patch
p="$(realpath "$1")"; prop="$2"; shift 2
git -C /repo apply "$p" || exit 9
/verif/check "$prop" --no-evidence "$@"
rc=$?
git -C /repo checkout -- .
exit $rc
