#!/bin/sh
# usage: mutant.sh <patch> <PROP> [check args...]
# Run a check against /repo's working tree with a patch applied. The patch is applied to a scratch copy of the
# tree (rsync, no .git) and the check is pointed at it with VERIF_REPO, so that /repo itself is never modified
# while other checks may be running; the result is the same as
#   git -C /repo apply <patch>; ./check <PROP>; git -C /repo checkout -- .
p="$(realpath "$1")"; prop="$2"; shift 2
D=$(mktemp -d /tmp/verif-mutant-XXXXXX)
trap 'rm -rf "$D"' EXIT
rsync -a --exclude .git /repo/ "$D"/ || exit 9
(cd "$D" && git apply "$p") || { echo "mutant.sh: patch does not apply to the current tree: $p"; exit 9; }
VERIF_REPO="$D" /verif/check "$prop" --no-evidence "$@"
