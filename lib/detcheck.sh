#!/bin/sh
# usage: detcheck.sh PROP first count  — run the same seeds in two processes (different GOMAXPROCS) and diff trace hashes
EXE=$(/verif/lib/devbuild.sh 2>/dev/null | tail -1)
P=$1; F=$2; N=$3
cd /tmp
VERIF_AVOID=$4 GOMAXPROCS=1 VERIF_PROP=$P VERIF_SEEDS=$F:$N VERIF_STOP_AT=1000000 VERIF_OUT=/tmp/det_a.jsonl $EXE -test.run '^TestWorker$' -test.timeout 0 >/dev/null 2>&1 &
VERIF_AVOID=$4 GOMAXPROCS=8 VERIF_PROP=$P VERIF_SEEDS=$F:$N VERIF_STOP_AT=1000000 VERIF_OUT=/tmp/det_b.jsonl $EXE -test.run '^TestWorker$' -test.timeout 0 >/dev/null 2>&1 &
wait
python3 - <<'PY'
import json
a=[json.loads(l) for l in open('/tmp/det_a.jsonl')]
b=[json.loads(l) for l in open('/tmp/det_b.jsonl')]
bad=[(x['seed'],x['trace_hash'],y['trace_hash'],x['steps'],y['steps']) for x,y in zip(a,b) if x['trace_hash']!=y['trace_hash'] or x['sig']!=y['sig']]
print(len(a),len(b),'mismatches',len(bad), bad[:8])
PY
