"""Per-property parameters of the checks (budgets, evidence texts)."""

COMPONENTS_COMMON_STUB = []

PROPS = {
    "C15": dict(
        level="fault_enumeration",
        quick=dict(runs=64, env={"VERIF_C15_PARTS": "64"}),
        thorough=dict(runs=256, env={"VERIF_C15_PARTS": "256"}),
        exhaustive=True,
        rule=("bounded-exhaustive: every string of length <= L (quick 6, thorough 8) over {LF, CR, 'a', the two bytes "
              "of a 2-byte UTF-8 rune} x every chunking into reads (2^(n-1)) x read-buffer sizes {1,2,3,5,8,4096} x reader "
              "behaviours {plain, a zero-byte read inserted, last chunk returned together with io.EOF}, partitioned over the "
              "runs; plus one sampled long stream (up to 200 KiB, lines longer than the buffer) per run under the seeded "
              "scheduler with PRNG chunking. A case is non-trivial when the stream frames into >= 2 lines and is delivered "
              "in >= 2 reads; cases are distinct by construction (enumeration) — distinct_nontrivial sums them over the "
              "disjoint partitions that were run."),
        assumptions=[
            "the reader argument behaves like an io.Reader (returns n<=len(p); (0,nil) allowed; data may accompany io.EOF)",
            "the driver loop of the harness calls ReadAndSend until (0, io.EOF) and then Finish, as mtail's stream implementations do",
        ],
        real=["logstream.LineReader (ReadAndSend, send, Finish)", "logline.LogLine", "unbuffered output channel + consumer task (sampled part)"],
        stub=["io.Reader (simulated: chunking, zero-byte reads, EOF-with-data)"],
    ),
    "C16": dict(
        level="exploration",
        quick=dict(runs=6000),
        thorough=dict(runs=150000),
        rule=("each run = one filesystem history on the real filesystem for one tailed path + one seeded schedule of the tailer's goroutines "
              "(pattern poller, stream goroutines of old and new generations, forwarders, consumer). The first 1110 seeds (11110 in the "
              "thorough tier) enumerate every action sequence of length <= 3 (<= 4) over {line, fragment, CRLF line, truncate, rename+create, "
              "copy+truncate, delete, recreate, poll, clock jump > 24h}; later seeds sample sequences up to 12 actions. After every action the "
              "tailer observes the state (stream tick, pattern tick, stream tick, to quiescence, until a round delivers nothing new). "
              "Non-trivial: a file generation ended with an unterminated fragment buffered, or a truncation/rotation happened; distinct = "
              "distinct (action sequence, schedule signature) pairs among those."),
        assumptions=[
            "appends happen only while the path exists; a re-created file is empty when the tailer first sees it; truncation is to length 0 (statement premise: each step is observed before the next)",
            "a clock jump between observations has no effect (the stale-stream timer is stopped by the empty read that follows every data read)",
            "filesystem is the sandbox's (ext4 scratch dir and /dev/shm tmpfs, chosen per run); read errors such as EIO/ESTALE are not injected",
        ],
        expect_probes=["generation_ended_with_fragment", "fragment_then_truncate", "fragment_then_rename-rotate", "fragment_then_copy-truncate", "fragment_then_delete", "fragment_then_stop"],
        real=["tailer.Tailer (AddPattern, pollers, TailPath, forwarders, shutdown)", "logstream.fileStream", "logstream.LineReader", "kernel filesystem (real files)", "Go time (fake clock of the bubble)"],
        stub=["waker.Waker (simulated: ticks are controller actions)"],
    ),
}
