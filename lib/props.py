"""Per-property parameters of the checks (budgets, evidence texts)."""

COMPONENTS_COMMON_STUB = []

PROPS = {
    "C15": dict(
        level="fault_enumeration",
        quick=dict(runs=64, env={"VERIF_C15_PARTS": "64"}),
        thorough=dict(runs=256, env={"VERIF_C15_PARTS": "256"}),
        exhaustive=True,
        rule=("bounded-exhaustive: every string of length <= L (quick 6, thorough 8) over {LF, CR, 'a', the two bytes "
              "of a 2-byte UTF-8 rune} x every chunking into reads (2^(n-1)) x read-buffer sizes {1,2,3,5,8,4096} x reader "
              "behaviours {plain, a zero-byte read inserted, last chunk returned together with io.EOF}, partitioned over the "
              "runs; plus one sampled long stream (up to 200 KiB, lines longer than the buffer) per run under the seeded "
              "scheduler with PRNG chunking. A case is non-trivial when the stream frames into >= 2 lines and is delivered "
              "in >= 2 reads; cases are distinct by construction (enumeration) — distinct_nontrivial sums them over the "
              "disjoint partitions that were run."),
        assumptions=[
            "the reader argument behaves like an io.Reader (returns n<=len(p); (0,nil) allowed; data may accompany io.EOF)",
            "the driver loop of the harness calls ReadAndSend until (0, io.EOF) and then Finish, as mtail's stream implementations do",
        ],
        real=["logstream.LineReader (ReadAndSend, send, Finish)", "logline.LogLine", "unbuffered output channel + consumer task (sampled part)"],
        stub=["io.Reader (simulated: chunking, zero-byte reads, EOF-with-data)"],
    ),
}
