"""Per-property parameters of the checks (budgets, evidence texts)."""

COMPONENTS_COMMON_STUB = []

PROPS = {
    "C15": dict(
        level="fault_enumeration",
        quick=dict(runs=64, env={"VERIF_C15_PARTS": "64", "VERIF_WARMUP": "0"}),
        thorough=dict(runs=256, env={"VERIF_C15_PARTS": "256", "VERIF_WARMUP": "0"}),
        exhaustive=True,
        rule=("bounded-exhaustive: every string of length <= L (quick 6, thorough 8) over {LF, CR, 'a', the two bytes "
              "of a 2-byte UTF-8 rune} x every chunking into reads (2^(n-1)) x read-buffer sizes {1,2,3,5,8,4096} x reader "
              "behaviours {plain, a zero-byte read inserted, last chunk returned together with io.EOF, the source ends and the same reader then reads the same bytes again (what the file stream does after a truncation)}, partitioned over the "
              "runs; plus one sampled long stream (up to 200 KiB, lines longer than the buffer) per run under the seeded "
              "scheduler with PRNG chunking. A case is non-trivial when the stream frames into >= 2 lines and is delivered "
              "in >= 2 reads; cases are distinct by construction (enumeration) — distinct_nontrivial sums them over the "
              "disjoint partitions that were run."),
        assumptions=[
            "the reader argument behaves like an io.Reader (returns n<=len(p); (0,nil) allowed; data may accompany io.EOF)",
            "the driver loop of the harness calls ReadAndSend until (0, io.EOF) and then Finish, as mtail's stream implementations do",
        ],
        real=["logstream.LineReader (ReadAndSend, send, Finish)", "logline.LogLine", "unbuffered output channel + consumer task (sampled part)"],
        stub=["io.Reader (simulated: chunking, zero-byte reads, EOF-with-data)"],
    ),
    "C16": dict(
        level="exploration",
        quick=dict(runs=6000),
        thorough=dict(runs=150000),
        rule=("each run = one filesystem history on the real filesystem for one tailed path + one seeded schedule of the tailer's goroutines "
              "(pattern poller, stream goroutines of old and new generations, forwarders, consumer). The first 1110 seeds (11110 in the "
              "thorough tier) enumerate every action sequence of length <= 3 (<= 4) over {line, fragment, CRLF line, truncate, rename+create, "
              "copy+truncate, delete, recreate, poll, clock jump > 24h}; later seeds sample sequences up to 12 actions; one run in three the path also "
              "matches a second overlapping pattern, one in six ends with a burst of several read buffers written just before tailing stops. After every action the "
              "tailer observes the state (stream tick, pattern tick, stream tick, to quiescence, until a round delivers nothing new). "
              "Non-trivial: a file generation ended with an unterminated fragment buffered, or a truncation/rotation happened; distinct = "
              "distinct (action sequence, schedule signature) pairs among those."),
        assumptions=[
            "appends happen only while the path exists; a re-created file is empty when the tailer first sees it; truncation is to length 0 (statement premise: each step is observed before the next)",
            "a clock jump between observations has no effect (the stale-stream timer is stopped by the empty read that follows every data read)",
            "filesystem is the sandbox's (ext4 scratch dir and /dev/shm tmpfs, chosen per run); in one run in four the reads of the file streams are cut short (one read in three returns only the first 1-4096 bytes, drawn from the io stream — legal for read(2) and io.Reader); read errors such as EIO/ESTALE are not injected",
        ],
        expect_probes=["overlapping_patterns", "unread_backlog_at_stop", "generation_ended_with_fragment", "fragment_then_truncate", "fragment_then_rename-rotate", "fragment_then_copy-truncate", "fragment_then_delete", "fragment_then_stop"],
        real=["tailer.Tailer (AddPattern, pollers, TailPath, forwarders, shutdown)", "logstream.fileStream", "logstream.LineReader", "kernel filesystem (real files)", "Go time (fake clock of the bubble)"],
        stub=["waker.Waker (simulated ticks as controller actions in 4 runs of 5; mtail's real timed waker under the fake clock in the fifth)"],
    ),
    "C09": dict(
        level="exploration",
        quick=dict(runs=20000),
        thorough=dict(runs=600000),
        rule=("each run = one metric (kind x value type from 8 combinations, 0-3 keys) + one generated history of 5-40 operations "
              "{GetDatum, Set/Inc/Dec/Observe with explicit or zero timestamp, RemoveDatum, ExpireDatum, wrong-arity calls, RemoveOldestDatum, 2-3 tasks looking the same tuple up at once under the seeded scheduler, "
              "clock advance} over a universe of 6-8 tuples; expiry marks of 0-5 minutes; after every operation the metric is read back through EmitLabelSets (emitter goroutine "
              "under the scheduler, read lock held), FindLabelValueOrNil and json.Marshal and compared with an insertion-ordered list model. "
              "Non-trivial: >= 2 tuples created and at least one live tuple deleted; distinct = distinct (kind, type, arity, operation history)."),
        assumptions=[
            "the timestamp of a datum that was created but never updated is unspecified and not compared",
            "the tuple universe is small (6-8 tuples per arity) but includes tuples that differ only in where a hyphen (leading, trailing, alone) or backslash sits relative to a label boundary; the general injectivity statement over arbitrary strings stays with C08",
            "one client task issues the history; the only concurrent step is the simultaneous lookup of one tuple by 2-3 tasks (all must get one datum) — the concurrent behaviour of the API at large is C11's subject",
        ],
        expect_probes=["create", "delete_live", "delete_absent", "expire_absent", "wrong_arity", "remove_oldest", "update_with_zero_time", "concurrent_lookup", "concurrent_create"],
        real=["metrics.Metric", "datum.Int/Float/String/Buckets", "EmitLabelSets goroutine", "Go time (fake clock)"],
        stub=[],
    ),
    "C10": dict(
        level="exploration",
        quick=dict(runs=20000),
        thorough=dict(runs=600000),
        rule=("each run = one store of 1-3 metrics (integer, float, text or histogram data) with 0-6 data each, limits {none, =size, <size, >size}, expiry marks (one marked datum in three marked twice with different delays: the latest counts), and explicit timestamps (one datum in three updated twice with the same value: the later instant counts) "
              "placed relative to the GC instant T: exactly at / 1ns below / 1ns above the expiry boundary, far past, in the future of T, tied; "
              "GC runs either as a direct Gc() call by a task at T or through the real StartGcLoop ticker while the controller advances the fake "
              "clock (every tick's pass is judged at its own instant). Oracle: relational model of the statement (limit phase with ties free, "
              "then expiry, nothing else changes) over the update instants and expiries the harness intended, not those read back from the data. Non-trivial: something was removed or a metric was over its limit; distinct = distinct store descriptions."),
        assumptions=["every datum has been updated at least once before GC (timestamps are explicit)", "GC does not look at values: every value type is used, with values that are never compared except for being unchanged"],
        expect_probes=["over_limit", "age_exactly_expiry", "timestamp_in_future_of_T", "gc_tick"],
        real=["metrics.Store (Add, Range, Gc, StartGcLoop ticker goroutine)", "metrics.Metric (RemoveOldestDatum, RemoveDatum, ExpireDatum)", "Go time/ticker (fake clock)"],
        stub=[],
    ),
    "C18": dict(
        level="exploration",
        quick=dict(runs=5000),
        thorough=dict(runs=150000),
        rule=("each run = 1-3 glob patterns drawn from 10 overlapping ones (absolute and relative, '*', '?', directory wildcards, a path with '..', a literal with a doubled separator, a glob through '.'), "
              "an optional ignore regexp, a small real directory tree and a history of 1-8 actions {create, delete, rename to a free name, replace, "
              "delete (with or without an unterminated fragment pending) + stream poll + re-create between two pattern polls — the re-creation and the next pattern poll arriving either afterwards or 0-29 scheduler steps into the old stream's winding down, replace + delete placed 0-399 single statements into the stream poll that notices the replacement + re-create, mkdir/rmdir, rename directory, a directory whose name matches a file pattern, "
              "poll}, each followed by an observation (one run in four "
              "the patterns also match an untailable entry, a symlink to a device node); then a unique "
              "probe line is appended to every file of the tree. All interleavings of the pattern pollers (one per pattern, racing to TailPath the same "
              "path), streams and forwarders are sampled by the seeded scheduler. Non-trivial: >= 2 files tailed at once and the tree changed; "
              "distinct = distinct (patterns, ignore, history, schedule signature)."),
        assumptions=[
            "the sandbox runs as root, so unreadable files cannot be produced and are not covered",
            "'matches a pattern' is path/filepath.Match on the absolute path (the standard library's glob definition)",
            "renaming a file onto an existing tailed path is a rotation of that path (C16) and is not generated here",
        ],
        expect_probes=["two_or_more_tailed", "create", "delete", "rename", "replace", "recreate_between_pattern_polls", "delete_during_stream_poll", "directory_change", "directory_matching_pattern"],
        real=["tailer.Tailer (AddPattern, Ignore, pollLogPattern, doPatternGlob, TailPath, forwarder/removal)", "logstream.fileStream", "kernel filesystem", "log_count expvar"],
        stub=["waker.Waker (simulated ticks in 4 runs of 5; mtail's real timed waker under the fake clock in the fifth)"],
    ),
    "C12": dict(
        level="fault_enumeration",
        quick=dict(runs=1500),
        thorough=dict(runs=60000),
        rule=("each run = one generated store (1-5 metrics of every kind/type, 0-2 keys, 0-4 label sets), one exporter family chosen by seed "
              "(prometheus, push[collectd+graphite+statsd], varz, graphite-http, json, http-server), exporter options (prog label on/off, timestamps on/off), and — "
              "enumerated completely for that store — every fault position of the family: prometheus: invalid metric name per metric, key named "
              "prog per keyed metric, non-UTF-8 value at every (metric, label set); push: per target every write k=1..W failing (plain and short "
              "write), dial failure; HTTP handlers: request cancelled before the call and during write k, ResponseWriter failing from write k; plus "
              "the fault-free attempt; after every attempt a concurrent-updater variant (one attempt in two: a task updates an existing datum of every type and creates a label set during the attempt), "
              "a write-lock probe of every metric and a registration/lookup/removal on the store. The http-server family (one run in six) instead starts mtail's real HTTP "
              "server (mtail.New, net/http with mtail's timeouts) on the in-memory transport with a 0.5-16 KiB send buffer, requests /varz, /graphite, /json or /metrics "
              "for a store of 40-239 label sets from a client that reads everything, reads now and then, or stops reading without closing; a simulated minute passes; then "
              "the same probes, and shutdown must complete with no task left. Every attempt runs on a fresh copy of the store under a seeded schedule of exporter, emitter goroutines and "
              "probe. evaluations = attempts; non-trivial attempt = one whose fault fired; distinct = those attempts, over distinct (family, store, "
              "options, schedule) runs. exhaustive refers to fault positions per generated store, the store space is sampled."),
        assumptions=[
            "the push connection is a stub net.Conn that fails at the chosen write (deadlines are accepted and ignored)",
            "in the handler families HTTP handlers are called directly with a fault-injecting ResponseWriter and a cancellable request context; the http-server family runs the real server, where the only fault is the client that stops reading (no resets, no malformed requests)",
            "while a stalled client holds the connection nothing is asserted; the write deadline mtail configures is not mirrored: any finite one below a simulated minute passes",
            "'subsequent line processing' is represented by what the VM does on a line: GetDatum (write lock) on every metric, then an update",
        ],
        expect_probes=[],
        real=["exporter.Exporter (Collect via Write and a real prometheus.Registry Gather, PushMetrics, writeSocketMetrics, formatters, HandleVarz, HandleGraphite, HandleJSON, New/Stop)",
              "metrics.Metric locks (simulated mutex with Go's writer preference)", "EmitLabelSets goroutines", "prometheus client_golang", "mtail.Server with its net/http server (ServeMux, promhttp, timeouts) in the http-server family"],
        stub=["push connection (net.DialTimeout redirected)", "http.ResponseWriter (handler families)", "TCP transport of the HTTP server (in-memory listener/conn with a bounded send buffer and deadlines on the fake clock)"],
    ),
    "C20": dict(
        level="exploration",
        quick=dict(runs=4000),
        thorough=dict(runs=120000),
        rule=("each run = (runtime options drawn per run: metric source positions omitted, runtime errors logged) N in 4..31 numbered lines streamed by a feeder task while a loader task performs 1-4 reloads of a witness program "
              "(same declarations at the same place: gauge last, counter seen by n, counter byver by v; each version counts into its own byver label), "
              "each reload started after a seeded number of lines; mostly statement-level preemption with small quanta so that the reload lands "
              "while the old version is between receiving a line and finishing it. The controller samples the gauge after every scheduler step. "
              "Non-trivial: a reload overlapped the line stream; distinct = distinct (N, reload positions, schedule signature)."),
        assumptions=["reloads are requested through LoadAllPrograms (what the SIGHUP handler calls); the signal itself is not delivered",
                     "lines carry only digits; the witness program is insensitive to anything but order and multiplicity"],
        expect_probes=["reload_overlapped_lines"],
        real=["runtime.Runtime (fan-out goroutine, LoadAllPrograms, CompileAndRun, vm swap)", "vm.VM (Run loop, ProcessLogLine)", "metrics.Store.Add carry-over", "compiler"],
        stub=[],
    ),
    "C26": dict(
        level="exploration",
        quick=dict(runs=4000),
        thorough=dict(runs=120000),
        rule=("each run = a real program directory (whose own name contains glob characters in three runs of five, next to sibling directories such a pattern would match; runtime options drawn per run) with up to three .mtail files, a dot-file, a notes.txt, *.mtail.bak / *.mtail.txt names, a "
              "subdirectory holding a .mtail file and optionally a directory *named* d.mtail, an eligible name with two dots (a.v2.mtail), and a history of 1-8 actions {write valid, write broken (a syntax error, or — in the half of the runs where a metric of another program occupies a name — source that compiles but is refused at registration; or the entry becomes a dangling symlink, which is listed but cannot be opened), "
              "restore, remove, put the removed file back byte-identical, rename (to eligible and ineligible names), touch, reload only}, each followed by LoadAllPrograms — one time in three "
              "while a feeder streams lines. After each reload one line is fed at quiescence: exactly the (file, version) counters of the model's "
              "running set move by one, and prog_loads/unloads/load_errors equal the events. With lines flowing, programs running before and after "
              "the reload must count every line exactly once. Non-trivial: the directory changed; distinct = distinct (history, schedule signature)."),
        assumptions=["every version of a file counts into its own label of one metric declared identically by all versions, so counts survive reloads",
                     "symlinks and unreadable files are not generated"],
        expect_probes=["edit_valid", "edit_broken", "restore", "remove", "put_back_identical", "rename", "rename_to_ineligible", "touch", "reload_while_lines_flow", "directory_named_like_program", "edit_refused_at_registration"],
        real=["runtime.Runtime (LoadAllPrograms, LoadProgram, CompileAndRun, UnloadProgram, fan-out)", "vm.VM", "compiler", "kernel filesystem", "prog_* expvars"],
        stub=[],
    ),
    "C14": dict(
        level="exploration",
        quick=dict(runs=4000),
        thorough=dict(runs=120000),
        rule=("each run = program p (scalar counter, dimensioned counter, gauge, a histogram without keys) loaded with runtime options drawn per run (no metric source positions, runtime errors logged), lines fed, then 1-7 actions from {reload p with a version from the family identical / comment-only edit / "
              "declaration moved / kind changed (first or a later declaration) / type changed / keys changed / syntax error — one time in three while lines "
              "flow; unload p (file removed) and load it again later in any of those versions; load or remove a "
              "second program q whose second declaration conflicts in kind with p's (registration refused after q already declared another metric); "
              "clock advance + GC; more lines incl. delayed deletes}. The harness interprets the lines itself (hits, bytag[tag], g, pending expiry) "
              "and compares with the store after every action; a failed load must leave the exposition byte-identical and the old version running "
              "(probe lines create new label sets); after every action a real registry Gather (exporter registered while the store was empty, as "
              "the daemon does) must succeed. Non-trivial: a kept-declaration reload, a failed load or a refused registration happened."),
        assumptions=["after a reload that changes a declaration (moved, kind, type, keys) the statement promises nothing about kept values: value tracking stops, the no-duplicates/gather oracle continues",
                     "programs that deliberately export one name twice are not generated"],
        expect_probes=["unload", "load_after_unload", "reload_later-declaration-kind-changed", "kept_declarations_reload", "failed_load", "registration_refused", "reload_declaration-moved", "reload_type-changed", "reload_keys-changed", "reload_kind-changed", "reload_syntax-error", "reload_identical", "gc", "reload_while_lines_flow"],
        real=["runtime.Runtime", "metrics.Store (Add carry-over, CheckKind, Remove, Gc)", "vm.VM", "exporter.Exporter.Collect + prometheus.Registry.Gather + expfmt", "Go time (fake clock)"],
        stub=[],
    ),
    "C06": dict(
        level="exploration",
        quick=dict(runs=3000),
        thorough=dict(runs=100000),
        rule=("each run = an observed program (4 variants: scalar + dimensioned + gauge, hidden metric, runtime-error maker, one relying on the default of timestamp(); one run in three 1-2 other programs are already in the directory at the start and load before it) never "
              "touched, 4-33 lines, and 1-6 loader operations on up to three other program files drawn from 16 kinds (same name+kind, same name with "
              "float type, same name with other keys, same-name gauge, kind conflict, broken, runtime-error maker, hidden same name, hidden variable of another kind, two programs that expire the label tuples the observed program also holds under the same metric name, a counter/gauge pair on a name the observed program does not use, one that sets its own time register on every line, one with a metric that cannot be exported) — add, replace, "
              "remove, re-add — half of them while the lines flow; one time in three two simulated minutes pass and Store.Gc runs (it must not fail). Oracle: the observed program's series in the real Prometheus exposition equal "
              "those of a solo reference run on the same lines (second runtime in the same bubble); the scrape as a whole keeps working; valid "
              "non-conflicting programs are never refused; no datum is shared between programs. Non-trivial: a load overlapped line processing."),
        assumptions=["OmitProgLabel is not used (same-named metrics then collide by construction)", "timestamps are not compared (values only)"],
        expect_probes=["load_overlapped_lines", "other_same-name-same-kind", "other_same-name-float", "other_same-name-other-keys", "other_kind-conflict", "other_broken", "other_runtime-errors", "other_hidden-same-name", "other_hidden-other-kind", "other_gauge-same-name", "other_expiring-by-first", "other_expiring-total", "other_extra-counter", "other_extra-gauge", "gc_pass"],
        real=["runtime.Runtime", "metrics.Store", "vm.VM (one goroutine per program)", "exporter.Exporter (Collect, Write)", "prometheus.Registry.Gather + expfmt"],
        stub=[],
    ),
    "C19": dict(
        level="exploration",
        quick=dict(runs=3000),
        thorough=dict(runs=100000),
        rule=("each run = the whole server in one-shot mode: a witness program (counts every line, every line per getfilename(), and per file how many "
              "numbered lines arrived after a smaller number) plus 0-3 interleaving-insensitive programs, and 1-3 generated log files (0-12 lines: "
              "numbered, empty, CRLF, optionally a final line without newline; empty files), given by name or by one glob (one time in three the "
              "glob also matches an entry that cannot be tailed, a symlink to a device node, sorting before or between the logs); all goroutines of tailer, "
              "streams, forwarders, fan-out and VMs under the seeded scheduler (1 run in 3 with statement-level preemption). Oracle: Run returns within "
              "the step budget and no task remains; counts equal the harness's own split of the file contents; the extra programs' final metrics equal "
              "a sequential run of the same programs file by file. Non-trivial: >= 2 files and >= 4 lines; distinct = distinct (files, programs, schedule)."),
        assumptions=["the extra programs are insensitive to how different files' lines interleave, so 'an interleaving that keeps each file's order' is checked through per-file order witnesses plus a sequential reference", "in one run in four the file streams' reads are cut short (one read in three returns only the first 1-4096 bytes)"],
        expect_probes=[],
        real=["mtail.Server (New with OneShot, Run)", "tailer.Tailer", "logstream.fileStream (one-shot)", "runtime.Runtime", "vm.VM", "metrics.Store", "compiler", "kernel filesystem"],
        stub=[],
    ),
    "C25": dict(
        level="exploration",
        quick=dict(runs=2500),
        thorough=dict(runs=80000),
        rule=("each run = the whole server (not one-shot) with simulated pollers: a witness program loaded for the whole run, programs errp/divp whose "
              "runtime errors are a harness-computable function of the line, 1-2 logs, and 2-9 actions from {append 1-4 lines, rotate, truncate, "
              "delete/recreate a log; several connections arriving together on a tailed stream socket (one run in three has one); write a valid / broken / "
              "kind-conflicting / self-conflicting (one name, two kinds) version of a program, replace it by a dangling symlink (listed, cannot be opened: a load error), remove it, reload} each followed by an "
              "observation; one append in four leaves an unterminated fragment that the end of that file generation (rotate, truncate, delete, shutdown) "
              "must deliver and count as a line of its own. After every action and after shutdown: lines_total, log_lines_total[f], prog_runtime_errors_total[p], prog_loads/unloads/load_errors_total[p] "
              "and log_count (read as deltas) must equal the harness's own event counts and the witness program's counters. Non-trivial: lines flowed "
              "and a program or log-file event happened; distinct = distinct (history, schedule signature)."),
        assumptions=["histories stay within C16's premises", "in one run in four the file streams' reads are cut short (one read in three returns only the first 1-4096 bytes)", "expvars are process-global: one run at a time per process, read as deltas",
                     "reloads are requested through LoadAllPrograms via a generated accessor (verif build tag) for the server's runtime"],
        expect_probes=["socket_burst", "fragment_flushed_as_line", "runtime_error_strtol", "runtime_error_div0", "prog_valid", "prog_broken", "prog_refused", "prog_removed", "rotate", "truncate", "delete_log"],
        real=["mtail.Server (New, Run)", "tailer + file streams", "runtime + VMs", "exporter.New (no push)", "expvar counters"],
        stub=["waker.Waker (simulated ticks in 4 runs of 5; mtail's real timed waker under the fake clock in the fifth)"],
    ),
    "C17": dict(
        level="exploration",
        quick=dict(runs=8000),
        thorough=dict(runs=300000),
        rule=("each run = one stream source reached through tailer.New: two runs in three a socket (unix://, tcp://, unixgram:// or udp://, one-shot on "
              "or off) on the in-memory transport, one in three a named pipe or stdin backed by one — a real kernel FIFO behind the read gate — with one "
              "writer (arbitrary chunking, optional unterminated tail) or two overlapping writers (whole lines per write); one pipe run in three the pipe matches two patterns and appears after tailing began (exactly one stream may be started), one in three an idle second pipe is tailed on the same waker; stream ticks interleaved by "
              "the seed and an optional cancellation at a seeded step. Sockets: 1-4 writer tasks each writing 0-6 uniquely tagged lines (some long, some CRLF) in seeded chunks (stream sockets: optional "
              "unterminated tail, then close; datagram sockets: 1-3 whole lines per datagram, an empty datagram now and then outside one-shot mode, one bulk unixgram run starting with a single 65-125 KiB datagram), short reads drawn per read, and in one run of three a "
              "cancellation of the stream at a seeded scheduler step while writers are active (including just after a connection was accepted and "
              "with bytes buffered but unread). Oracle: per connection the delivered lines equal the written ones in order, the tail once at close, "
              "no line mixes two connections; with cancellation a prefix (the last delivery may be the part of a line already read); the output "
              "channel closes, nothing panics (send on closed channel), no task remains. Non-trivial: >= 2 writers or an early cancellation."),
        assumptions=["sockets are the in-memory stub simnet (blocking Accept/Read, past deadline fails a read even with data buffered, EOF after close and drain, Close unblocks with 'use of closed network connection')",
                     "named pipes and stdin are real kernel FIFOs; the read gate lets a read through to the kernel only when it cannot block there (bytes pending, no writer, or deadline set) and both writers open the pipe before anything is written (a writer that connects after the last one closed is a new session the reader may already have seen the end of)",
                     "datagram senders send whole newline-terminated lines; no datagram loss or reordering is injected (the statement promises delivery in write order)"],
        expect_probes=["cancel_with_conn_open", "tail_delivered_at_close", "partial_line_flushed_at_cancel", "pipe_run", "datagram_bulk_over_128KiB"],
        real=["logstream.socketStream (accept loop, closer, handleConn)", "logstream.dgramStream", "logstream.fifoStream on a real kernel FIFO (named pipe and stdin)", "logstream.SetReadDeadlineOnDone / IsExitableError", "logstream.LineReader", "tailer.Tailer"],
        stub=["net.Listener / net.Conn / net.PacketConn (simnet)", "waker.Waker"],
    ),
    "C07": dict(
        level="exploration",
        quick=dict(runs=20000),
        thorough=dict(runs=600000),
        rule=("each run = a program with 1-3 strptime layouts from a family of seven Go reference layouts (two of them reading the same strings as "
              "year-month-day and year-day-month; a year-less syslog layout with and without a zone offset; zones; fractions), settime, plain timestamp() and a rule where strptime "
              "comes after an update; an override location from {none, UTC, +05:00, -09:30}; the current-year option on/off; and 3-16 lines with values "
              "valid, invalid, generated for another layout, or repeated from earlier lines, with the simulated clock advanced between lines (ms, days, "
              "to one second before/at/after New Year). After every line the gauge holding timestamp(), the timestamp of every datum updated later on "
              "the line (a counter, a histogram, and a text metric and a float gauge that are re-assigned the value they already hold) and the runtime-error count are compared with a model built on time.Parse/ParseInLocation and the simulated clock. "
              "Non-trivial: a value was repeated or the clock jumped; distinct = distinct (configuration, line history)."),
        assumptions=["datum timestamps are compared only for instants representable as int64 nanoseconds since 1970 (years 1678-2261): a year-less layout without the current-year option yields year 0, which a datum cannot hold (timestamp() itself is still compared)",
                     "the whole scenario runs on the controller goroutine (a VM is single-threaded); the schedule dimension is empty and stated as such"],
        expect_probes=["invalid_value", "repeated_value", "parse_failure_expected", "instant_not_representable_in_datum"],
        real=["compiler", "vm.VM (Strptime, Settime, Timestamp, ParseTime, memo)", "datum stamping", "Go time (fake clock: now and current year)"],
        stub=[],
    ),
    "C05": dict(
        level="exploration",
        quick=dict(runs=20000),
        thorough=dict(runs=600000),
        rule=("each run = a program assembled from 3-8 of 18 state-stressing rules (strptime under two layouts reading the same strings differently, "
              "syslog layout, constant strptime, strptime followed by a failing conversion or by stop on the same line, settime, timestamp(), strtol and division that fail on some inputs, stop, a rule after stop, del, del after, "
              "else/otherwise, capture reuse into a text metric, a line whose only metric access is one label set; one program in three ends in an else branch whose last statement — the program's last instruction — is stop or a failing del-after), a history of 0-12 lines (one in three an exact repeat of an earlier line) with clock "
              "advances, jumps and store GC passes in between (one run in six instead: a timestamped line, 64-200 lines with other timestamps, and that first line again as L; one run in twelve ends in a scripted tail: a label set is created, marked for expiry, touched, collected by GC, and touched or marked again), the log-runtime-errors option drawn per run, and a final line L. Twin oracle: the VM that processed the history and a freshly compiled copy loaded with the "
              "same metric contents both process L at the same simulated instant; all metrics (tuples, values, timestamps, expiry), the runtime-error "
              "count and the error text must agree. Non-trivial: the history contains a strptime, a runtime error or a stop."),
        assumptions=["programs rejected by the compiler are discarded", "the scenario runs on the controller goroutine (single VM, no schedule dimension)"],
        expect_probes=["history_has_strptime", "history_line_raised_runtime_error", "history_has_stop", "line_raised_runtime_error"],
        real=["compiler", "vm.VM.ProcessLogLine", "metrics.Metric / datum", "Go time (fake clock)"],
        stub=[],
    ),
    "C11": dict(
        level="exploration",
        flavour="race",
        quick=dict(runs=1600, recheck=2),
        thorough=dict(runs=24000, recheck=3),
        rule=("each run = one program (scalar counter, dimensioned counter with limit 4, gauge set to the line number, histogram by tag, text metric, "
              "a dimensioned counter whose label sets are deleted and expired) fed 10-49 lines by a feeder task while — drawn per run — the real GC "
              "ticker loop runs under the fake clock (the controller advances time in the middle of line processing), a reloader task performs 1-3 "
              "reloads, 2-3 client tasks increment the label sets of one shared metric through the metrics API, and up to six exporter tasks scrape repeatedly (Prometheus gather, varz, graphite, JSON handler, push with all three "
              "formatters, store JSON dump); three runs in four with statement-level preemption and small quanta. The binary is built with -race and "
              "the scheduler's hand-offs are hidden from the detector. Oracles: no race report in mtail code; counter totals equal the increments "
              "the lines call for; exported monotone series stay within [0, final] and never decrease between successive exports; every exported sample of the scalar "
              "counter and of the line-number gauge is checked against the step-stamped history of the lines (a counter value may not exceed the number of "
              "increments begun when the scrape ended; a gauge value must be one a line begun by then wrote) — the statement's 'a value that existed at some point'; in every Prometheus, graphite and JSON export the parts of each histogram agree (+Inf bucket / sum of bins = count, cumulative buckets never decrease); no panic, no "
              "deadlock. Non-trivial: at least one exporter ran and GC or a reload was active; distinct = distinct (configuration, schedule signature)."),
        assumptions=["race detection is go's -race (happens-before) with the simulator's own synchronisation made invisible through runtime.RaceDisable; reports whose innermost non-library frame on either side is harness or simulator code are ignored",
                     "exports-reflect-existing-values is read literally: stale values are allowed (an export cache would be legitimate), values from the future or never written are not; labelled series and histograms keep the range/monotonicity check; porcupine is not used because no search is needed with one writer",
                     "the sim mutexes re-create sync.RWMutex's race annotations (RaceAcquire/Release/ReleaseMerge), so lock ordering is what the detector would see with the real type"],
        expect_probes=[],
        real=["runtime.Runtime + vm.VM", "metrics.Store (Gc loop, Add, Range, MarshalJSON, WriteMetrics)", "exporter.Exporter: Collect/Gather, HandleVarz, HandleGraphite, HandleJSON, PushMetrics + formatters", "Go race detector"],
        stub=["push connection"],
    ),
}
