#!/bin/sh
# developer helper: (re)build the harness for the current trees and print the binary path
cd "$(dirname "$0")/.."
python3 - "$@" <<'PY'
import sys
sys.path.insert(0, "lib")
import simlib
fl = sys.argv[1] if len(sys.argv) > 1 else "plain"
try:
    print(simlib.build(fl, log=lambda *a: print(*a, file=sys.stderr)))
except simlib.Machinery as m:
    print(str(m)[:6000], file=sys.stderr); sys.exit(2)
PY
