#!/usr/bin/env python3
"""Confirm an independently written breaking change before keeping it under /verif/seeded/<id>/.
usage: confirm_seeded.py <deliver/changeN dir> <seeded id> <PROP> [--keep-going]
Steps (all in a scratch git worktree of /repo, removed afterwards):
  1. the demonstration passes on the unchanged tree
  2. patch.diff applies cleanly and touches only non-test sources
  3. the demonstration fails with the patch
  4. /repo's own suite passes as in the baseline with the patch (lib/baseline_check.py)
Then the property's quick check is run against /repo with the patch applied (and undone)."""
import json, os, shutil, subprocess, sys, tempfile, time
src, sid, prop = sys.argv[1], sys.argv[2], sys.argv[3]
VERIF = os.path.dirname(os.path.dirname(os.path.abspath(__file__)))
env = dict(os.environ, GOFLAGS="-mod=mod", GOPROXY="off", GOSUMDB="off")
meta = json.load(open(os.path.join(src, "meta.json")))
patch = os.path.join(src, "patch.diff")
demo = None
for c in ("demo_test.go", "demo/main.go"):
    if os.path.exists(os.path.join(src, c)):
        demo = c
wt = tempfile.mkdtemp(prefix="confirm-", dir="/tmp")
os.rmdir(wt)
def sh(cmd, cwd, timeout=1500):
    p = subprocess.run(cmd, cwd=cwd, env=env, shell=isinstance(cmd, str), stdout=subprocess.PIPE, stderr=subprocess.STDOUT, text=True, timeout=timeout)
    return p.returncode, p.stdout
report = {"seeded_id": sid, "property": prop, "ran": []}
try:
    rc, out = sh(["git", "-C", "/repo", "worktree", "add", "--detach", wt, "HEAD"], "/")
    assert rc == 0, out
    touched = [l[6:] for l in open(patch).read().splitlines() if l.startswith("+++ b/")]
    report["touches"] = touched
    assert touched and all(not t.endswith("_test.go") for t in touched), "patch touches test files: %s" % touched
    pkgdir = meta.get("demo_pkg_dir", "").strip("/")
    if "deliver/" in meta["demo_run"]:
        # the demonstration's own command copies the file from deliver/: provide that directory
        shutil.copytree(os.path.dirname(os.path.abspath(src)), os.path.join(wt, "deliver"))
    elif demo == "demo_test.go":
        dst = os.path.join(wt, pkgdir, "zz_seeded_demo_test.go")
        shutil.copy(os.path.join(src, demo), dst)
    else:
        shutil.copytree(os.path.join(src, "demo"), os.path.join(wt, "zz_seeded_demo"))
    run = meta["demo_run"]
    run = run.replace("/tmp/wt/%sw" % prop, wt).replace("/tmp/wt/%sz" % prop, wt).replace("/tmp/wt/%sy" % prop, wt).replace("/tmp/wt/%sx" % prop, wt).replace("/tmp/wt/%s" % prop, wt).replace("<repo root>", wt)
    # 1. demo passes without the change (3 times)
    ok_clean = 0
    for i in range(3):
        rc, out = sh(run, wt)
        ok_clean += rc == 0
    report["demo_without_change"] = "%d/3 pass" % ok_clean
    report["ran"].append(run)
    # 2. apply
    rc, out = sh(["git", "apply", patch], wt)
    assert rc == 0, "patch does not apply: " + out
    rc, out = sh(["go", "build", "./..."], wt)
    assert rc == 0, "does not compile: " + out[-2000:]
    # 3. demo fails with the change (5 times)
    fails = 0
    last = ""
    for i in range(5):
        rc, out = sh(run, wt)
        fails += rc != 0
        last = out
    report["demo_with_change"] = "%d/5 fail" % fails
    report["demo_output_tail"] = last[-1500:]
    # 4. suite
    rc, out = sh([os.path.join(VERIF, "lib", "baseline_check.py"), wt], wt)
    report["suite_with_change"] = out.strip().splitlines()[0] if out.strip() else ""
    report["suite_ok"] = rc == 0
    report["confirmed"] = ok_clean == 3 and fails >= 4 and rc == 0
finally:
    subprocess.run(["git", "-C", "/repo", "worktree", "remove", "--force", wt], stdout=subprocess.DEVNULL, stderr=subprocess.DEVNULL)
    shutil.rmtree(wt, ignore_errors=True)
# run the property's check against the change
if report.get("confirmed"):
    t0 = time.time()
    p = subprocess.run([os.path.join(VERIF, "lib", "mutant.sh"), patch, prop], stdout=subprocess.PIPE, stderr=subprocess.STDOUT, text=True)
    lines = [l for l in p.stdout.splitlines() if l.startswith(("VIOLATION", "ok:", "violation", "machinery", "  minimal failing run", "KNOWN"))]
    report["check_exit"] = p.returncode
    report["check_output"] = [l[:600] for l in lines][-6:]
    report["check_wall_s"] = round(time.time() - t0, 1)
    report["ran"].append("lib/mutant.sh %s %s  (git -C /repo apply; ./check %s; git -C /repo checkout -- .)" % (patch, prop, prop))
print(json.dumps(report, indent=1))
if report.get("confirmed"):
    d = os.path.join(VERIF, "seeded", sid)
    os.makedirs(d, exist_ok=True)
    shutil.copy(patch, os.path.join(d, "patch.diff"))
    if demo == "demo_test.go":
        shutil.copy(os.path.join(src, demo), os.path.join(d, "demo_test.go"))
    else:
        shutil.copytree(os.path.join(src, "demo"), os.path.join(d, "demo"), dirs_exist_ok=True)
    m = dict(meta)
    m.update({"breaks_property": prop, "needs_to_manifest": meta.get("needs", ""), "confirmation": report})
    json.dump(m, open(os.path.join(d, "meta.json"), "w"), indent=1)
    print("kept as", d)
