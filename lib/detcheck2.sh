#!/bin/sh
# usage: detcheck2.sh PROP first count — each seed alone in a fresh process vs the same seeds in one process
EXE=$(/verif/lib/devbuild.sh 2>/dev/null | tail -1)
P=$1; F=$2; N=$3
cd /tmp; rm -f /tmp/det_single.jsonl
VERIF_PROP=$P VERIF_SEEDS=$F:$N VERIF_STOP_AT=1000000 VERIF_OUT=/tmp/det_seq.jsonl $EXE -test.run '^TestWorker$' -test.timeout 0 >/dev/null 2>&1
i=0
while [ $i -lt $N ]; do
  s=$((F+i))
  VERIF_PROP=$P VERIF_SEEDS=$s:1 VERIF_OUT=/tmp/det_one.jsonl $EXE -test.run '^TestWorker$' -test.timeout 0 >/dev/null 2>&1; cat /tmp/det_one.jsonl >> /tmp/det_single.jsonl
  i=$((i+1))
done
python3 - <<'PY'
import json
a=[json.loads(l) for l in open('/tmp/det_seq.jsonl')]
b=[json.loads(l) for l in open('/tmp/det_single.jsonl')]
bad=[(x['seed'],x['steps'],y['steps']) for x,y in zip(a,b) if x['trace_hash']!=y['trace_hash'] or x['sig']!=y['sig']]
print(len(a),len(b),'mismatches',len(bad), bad[:8])
PY
