"""Texts for MANIFEST.json."""

PURE = ("pure function of its input (no schedule, clock, fault or interleaving for a simulator to control); "
        "decided by other technique families, see DESIGN.md section 4")

NOT_APPLICABLE = {
    "C01": "results of compile+run vs the language reference: " + PURE,
    "C02": "optimiser on vs off: " + PURE,
    "C03": "compiler totality/determinism on source bytes: " + PURE,
    "C04": "VM type/stack safety of accepted programs: " + PURE,
    "C08": "injectivity of the label-tuple key: " + PURE,
    "C13": "Prometheus text as a function of (store, options): " + PURE,
    "C21": "histogram bucket arithmetic: " + PURE,
    "C22": "other export formats as a function of (store, flags): " + PURE,
    "C23": "formatter round trip on program text: " + PURE,
    "C24": "rejection of invalid programs: " + PURE,
    # not yet built (kept honest: listed until a check exists)
}

NOTES = ("All checks share one pipeline (./check <id>): rsync /repo's working tree to a scratch dir, instrument with simgo, "
         "build the harness with go1.26.8, fan seeds out over 16 worker processes, minimise and replay failures. "
         "Exit 2 means machinery trouble, never a verdict. VERIF_SEED selects the base seed.")

CHECK_META = {
    "C15": dict(
        technique="deterministic simulation: simulated io.Reader with enumerated read-chunking / short-read / zero-read / EOF-with-data faults, independent splitter oracle",
        design_ref="DESIGN.md section 3, C15",
        text=("fault enumeration: the real LineReader is driven over every string up to a length bound x every way of cutting it "
              "into reads x buffer sizes x reader behaviours, plus seeded long streams under the scheduler; the space up to the bound "
              "is covered completely, beyond it sampled"),
        note="trusts the harness's own splitter (20 lines) as the specification of framing; bounded string length (6 quick / 8 thorough)",
    ),
    "C16": dict(
        technique="deterministic simulation: real tailer + file stream on the real filesystem under a seeded scheduler and simulated pollers; file-generation reference model over enumerated + sampled rotation/truncation histories",
        design_ref="DESIGN.md section 3, C16",
        text=("exploration: every filesystem history of up to 3 (thorough: 4) steps and sampled longer ones, each under a seeded interleaving of "
              "the tailer's goroutines; deliveries are compared with a generations model after every step"),
        note="sampling of schedules; premise 'each step observed before the next' is implemented by an observation fixpoint; real kernel filesystem semantics of this sandbox",
    ),
    "C09": dict(
        technique="deterministic simulation: operation-history refinement of the real Metric against an ordered-map model under the simulated clock, emitter goroutine under the seeded scheduler",
        design_ref="DESIGN.md section 3, C09",
        text="exploration: seeded operation histories, compared op by op with a reference model through all three read paths (enumeration, lookup, JSON)",
        note="single client; sampling of histories up to 40 operations over 6 tuples; creation timestamps not compared",
    ),
    "C10": dict(
        technique="deterministic simulation: real Store.Gc and the real GC ticker loop under the bubble's fake clock, boundary-placed timestamps, relational GC model",
        design_ref="DESIGN.md section 3, C10",
        text="exploration: seeded stores with timestamps on the expiry boundaries and limits around the size; direct Gc at a known instant and the ticker loop under simulated time",
        note="sampling; the model leaves tie-breaking among equally old data free, as the statement does",
    ),
    "C18": dict(
        technique="deterministic simulation: real tailer and pattern pollers on a real directory tree under the seeded scheduler; set model of tailed paths checked by log_count and exactly-once probe lines",
        design_ref="DESIGN.md section 3, C18",
        text="exploration: seeded pattern sets x filesystem histories x interleavings of racing pattern pollers; membership checked after every step by a probe line per file",
        note="sampling; root sandbox (no unreadable files); glob semantics taken from path/filepath",
    ),
    "C12": dict(
        technique="deterministic simulation with fault enumeration: real exporters under the seeded scheduler, failing writers / unrepresentable labels / request cancellation injected at every position, blocked-forever and writer-lock oracles",
        design_ref="DESIGN.md section 3, C12",
        text=("fault enumeration: for each generated store every fault position of the chosen exporter family is tried on a fresh store; after each attempt "
              "a writer must get every metric's lock, no goroutine of the attempt may remain, and the next export must finish"),
        note="store space sampled; stub connection and ResponseWriter; lock behaviour is simrt's re-implementation of sync.RWMutex semantics (writer preference)",
    ),
    "C20": dict(
        technique="deterministic simulation: real runtime fan-out, loader and VMs under statement-level seeded preemption; gauge-trajectory invariant sampled after every scheduler step plus exactly-once witnesses",
        design_ref="DESIGN.md section 3, C20",
        text="exploration: seeded interleavings of a line feeder with reloads landing mid-line; order checked as an invariant after every step, multiplicity at the end",
        note="sampling of schedules; reload requested through LoadAllPrograms rather than a delivered SIGHUP",
    ),
    "C26": dict(
        technique="deterministic simulation: real loader on a real program directory under the seeded scheduler; set model of running (file, version) pairs observed through per-version counters and loader expvars",
        design_ref="DESIGN.md section 3, C26",
        text="exploration: seeded directory histories, reloads at quiescence and while lines flow; the running set is observed by feeding a line after every reload",
        note="sampling; per-version counters as the observation channel",
    ),
    "C14": dict(
        technique="deterministic simulation: real runtime, store, GC and Prometheus gather under the seeded scheduler and fake clock; line-interpreting reference model over reload histories",
        design_ref="DESIGN.md section 3, C14",
        text="exploration: seeded histories over a family of program versions, a conflicting second program, lines, delayed deletes, clock advances and GC; model comparison and a real scrape after every action",
        note="sampling; value tracking stops after reloads for which the statement promises nothing",
    ),
    "C06": dict(
        technique="deterministic simulation: two real runtimes in one bubble (with and without the other programs) under the seeded scheduler; the observed program's Prometheus series compared with its solo run",
        design_ref="DESIGN.md section 3, C06",
        text="exploration: seeded sets of colliding / failing / erroring other programs loaded, replaced and removed while lines flow; differential against a solo run of the observed program",
        note="sampling; one known finding (one-shot Exporter.Write with same-name different-keys metrics) is avoided in 3 runs of 4 and reported as KNOWN-FINDING by the 4th",
    ),
    "C19": dict(
        technique="deterministic simulation of the whole one-shot server under the seeded scheduler; bounded liveness (Run returns within a step budget, no task left) and conservation against independently split file contents",
        design_ref="DESIGN.md section 3, C19",
        text="exploration: seeded programs x files x interleavings of every goroutine of the pipeline; termination and exactly-once/in-order witnesses",
        note="sampling; bounded liveness is stated in scheduler steps, not wall time",
    ),
    "C25": dict(
        technique="deterministic simulation of the whole server with simulated pollers under the seeded scheduler; conservation between expvar deltas and independently witnessed events",
        design_ref="DESIGN.md section 3, C25",
        text="exploration: seeded log and program-directory histories; every self-monitoring counter compared with the harness's own event count after every action",
        note="sampling; accessor file for the server's runtime added in the scratch copy",
    ),
    "C17": dict(
        technique="deterministic simulation: real socket and datagram streams over an in-memory transport, real pipe and stdin streams on a kernel FIFO behind a read gate, under the seeded scheduler with seeded write chunking, short reads and cancellation points; per-connection framing model",
        design_ref="DESIGN.md section 3, C17",
        text="exploration: seeded interleavings of 1-4 writers, accept loop, per-connection readers, the closer and the deadline setter, with cancellation at arbitrary steps",
        note="sockets through a stub transport (conformance to real sockets argued from internal/poll's contract, not tested against loopback); pipes and stdin on the real kernel behind the gate",
    ),
    "C07": dict(
        technique="deterministic simulation of the clock: real compiler + VM under the bubble's fake time with advances and New-Year jumps between lines; independent time.Parse-based model",
        design_ref="DESIGN.md section 3, C07",
        text="exploration: seeded layout sets, zones, options, value histories (valid, invalid, cross-layout, repeated) and clock jumps; every line compared with the model",
        note="sampling; no schedule dimension (single VM driven synchronously); datum stamps compared for representable instants only",
    ),
    "C05": dict(
        technique="deterministic simulation of the clock with a twin-VM oracle: history-carrying VM vs freshly loaded copy with the same metric contents, same line, same simulated instant",
        design_ref="DESIGN.md section 3, C05",
        text="exploration: seeded programs from state-stressing rules x histories with clock jumps, repeated timestamp strings, runtime errors and stop; differential on the last line",
        note="sampling; no schedule dimension; the oracle needs no model of the language",
    ),
    "C11": dict(
        technique="deterministic simulation under the Go race detector: real VMs, GC loop, reloads and every export path interleaved by the seeded scheduler (statement-level preemption), scheduler hand-offs hidden from the detector; conservation and monotonicity oracles",
        design_ref="DESIGN.md section 2.4 and section 3, C11",
        text="exploration: seeded interleavings of line processing, GC under the fake clock, reloads and six export paths; happens-before race detection on every explored run plus lost-update and export-range checks",
        note="sampling; the race verdict relies on runtime.RaceDisable semantics of go1.26.8 (validated by seeded races: removing a lock is reported, correctly locked code is not)",
    ),
}
