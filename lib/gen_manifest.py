#!/usr/bin/env python3
"""Regenerate /verif/MANIFEST.json from lib/props.py and lib/manifest_meta.py."""
import json
import os
import sys

HERE = os.path.dirname(os.path.abspath(__file__))
sys.path.insert(0, HERE)
from props import PROPS  # noqa: E402
from manifest_meta import NOT_APPLICABLE, CHECK_META, NOTES  # noqa: E402

checks = []
for pid in sorted(PROPS):
    m = CHECK_META[pid]
    checks.append({
        "property_id": pid,
        "quick_cmd": "./check %s --tier quick" % pid,
        "thorough_cmd": "./check %s --tier thorough" % pid,
        "evidence_file": "/verif/evidence/%s.json" % pid,
        "replay_cmd_template": "./check %s --replay {path}" % pid,
        "engine": "simrt",
        "level_claimed": {"category": PROPS[pid]["level"], "text": m["text"], "design_ref": m["design_ref"]},
        "level_note": m["note"],
        "technique": m["technique"],
    })
manifest = {
    "version": 1,
    "setup_cmd": "./setup.sh",
    "hooks": {
        "guard": "verif",
        "enable": ("no hooks are committed to /repo: every check copies /repo's working tree to a scratch directory, "
                   "instruments the copy with /verif/simgo (source-to-source: scheduler yields, simulated mutexes, seeded select/map order, "
                   "I/O seams), adds /verif/simrt and the harness, and builds with `go1.26.8 test -c -tags verif`"),
        "baseline_off_cmd": "cd /repo && go build ./... && go test -vet=off -count=1 -timeout 25m ./...",
        "source_commits": [],
        "add_only": True,
    },
    "engines": [{
        "name": "simrt",
        "path": "/verif/simrt, /verif/simgo, /verif/harness, /verif/lib",
        "serves_properties": sorted(PROPS),
        "kind_free_text": ("deterministic simulation: seeded scheduler over real mtail goroutines inside a testing/synctest bubble "
                           "(fake clock), simulated mutexes/select/map order, fault-injecting I/O seams, reference-model and history oracles, "
                           "choice-tape minimisation and replay"),
    }],
    "checks": checks,
    "not_applicable": [{"property_id": k, "reason": v} for k, v in sorted(NOT_APPLICABLE.items()) if k not in PROPS],
    "notes": NOTES,
}
with open(os.path.join(os.path.dirname(HERE), "MANIFEST.json"), "w") as f:
    json.dump(manifest, f, indent=1)
    f.write("\n")
print("MANIFEST.json: %d checks, %d not applicable" % (len(checks), len(manifest["not_applicable"])))
