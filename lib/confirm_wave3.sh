#!/bin/sh
# confirm wave-3 deliveries: ids continue after -a,-b  (c, d, e)
for P in "$@"; do
  i=2
  for d in /tmp/wt/${P}x/deliver/change*; do
    [ -d "$d" ] || continue
    i=$((i+1))
    id="$P-$(echo $i | tr 123456 abcdef)"
    echo "=== $id ($d)"
    /verif/lib/confirm_seeded.py "$d" "$id" "$P" > /tmp/confirm-$id.json 2>&1
    python3 - "$id" <<'PY'
import json,sys
t=open('/tmp/confirm-%s.json'%sys.argv[1]).read()
try:
    j=json.loads(t[:t.rindex('}')+1])
    print(' confirmed=%s demo: without %s / with %s; suite_ok=%s; check_exit=%s %s' % (j.get('confirmed'), j.get('demo_without_change'), j.get('demo_with_change'), j.get('suite_ok'), j.get('check_exit'), (j.get('check_output') or [''])[-1][:200]))
except Exception as e:
    print(' ERROR', e, t[-800:])
PY
  done
done
