#!/usr/bin/env python3
"""Re-run the current quick check of each kept breaking change (seeded/<id>/patch.diff) through lib/mutant.sh,
record the outcome in seeded/<id>/meta.json ("recheck") and regenerate seeded/INDEX.md.

usage: recheck_seeded.py [--jobs N] [--index-only] [id ...]        (no ids: all)
A change is run against the check of the property it was written for, plus — when meta.json has
"also_checked_by": ["C16", ...] — against those.  Never touches /repo (mutant.sh works on a scratch copy).
"""
import concurrent.futures, glob, json, os, subprocess, sys, time

VERIF = os.path.dirname(os.path.dirname(os.path.abspath(__file__)))
args = sys.argv[1:]
jobs = 3
index_only = False
ids = []
while args:
    a = args.pop(0)
    if a == "--jobs":
        jobs = int(args.pop(0))
    elif a == "--index-only":
        index_only = True
    else:
        ids.append(a)
all_ids = sorted(os.path.basename(os.path.dirname(p)) for p in glob.glob(os.path.join(VERIF, "seeded", "*", "meta.json")))
if not ids:
    ids = all_ids


def commit():
    return subprocess.run(["git", "-C", VERIF, "rev-parse", "--short", "HEAD"], stdout=subprocess.PIPE, text=True).stdout.strip()


def run_one(sid):
    d = os.path.join(VERIF, "seeded", sid)
    meta = json.load(open(os.path.join(d, "meta.json")))
    props = [meta.get("breaks_property") or meta["property"]] + list(meta.get("also_checked_by", []))
    res = []
    for prop in props:
        t0 = time.time()
        p = subprocess.run([os.path.join(VERIF, "lib", "mutant.sh"), os.path.join(d, "patch.diff"), prop],
                           stdout=subprocess.PIPE, stderr=subprocess.STDOUT, text=True)
        lines = [l for l in p.stdout.splitlines() if l.startswith(("VIOLATION", "ok:", "machinery", "  minimal failing run", "mutant.sh"))]
        res.append({"check": prop, "exit": p.returncode, "output": [l[:500] for l in lines][-4:], "wall_s": round(time.time() - t0, 1)})
    meta["recheck"] = {"verif_commit": commit(), "results": res}
    json.dump(meta, open(os.path.join(d, "meta.json"), "w"), indent=1)
    return sid, res


if not index_only:
    with concurrent.futures.ThreadPoolExecutor(jobs) as ex:
        for sid, res in ex.map(run_one, ids):
            print(sid, " | ".join("%s: exit %d %s" % (r["check"], r["exit"], (r["output"] or [""])[-1][:110]) for r in res), flush=True)

# ---- index ---------------------------------------------------------------------------------------------------
rows = []
counts = {"detected": 0, "not detected": 0, "trouble": 0}
for sid in all_ids:
    meta = json.load(open(os.path.join(VERIF, "seeded", sid, "meta.json")))
    rc = meta.get("recheck")
    if rc:
        results = rc["results"]
    else:
        c = meta["confirmation"]
        results = [{"check": meta.get("breaks_property") or meta["property"], "exit": c.get("check_exit"), "output": c.get("check_output") or [""]}]
    det = [r for r in results if r["exit"] == 1]
    bad = [r for r in results if r["exit"] not in (0, 1)]
    if det:
        now = "detected" + ("" if det[0]["check"] == results[0]["check"] else " (by %s)" % det[0]["check"])
        line = next((l for l in det[0]["output"] if l.startswith("VIOLATION")), det[0]["output"][-1] if det[0]["output"] else "")
        counts["detected"] += 1
    elif bad:
        now, line = "machinery trouble", (bad[0]["output"] or [""])[-1]
        counts["trouble"] += 1
    else:
        now, line = "NOT detected", (results[0]["output"] or [""])[-1]
        counts["not detected"] += 1

    def cell(s, n=220):
        return (s or "").replace("|", "/").replace("\n", " ")[:n]
    rows.append("| %s | %s | %s | %s | %s | `%s` | %s |" % (sid, meta.get("breaks_property") or meta["property"], cell(meta.get("summary")), cell(meta.get("needs_to_manifest") or meta.get("needs")), now, cell(line, 110), cell(meta.get("first_result", ""), 400)))
head = """# Independently written breaking changes

Each directory holds `patch.diff` (against /repo HEAD at the time), the author's demonstration and `meta.json` (with the confirmation record: demonstration passes 3/3 without and fails >= 4/5 with the change; /repo's suite as in the baseline with the change; the quick check of the property run against the change, through `lib/mutant.sh`; and, under "recheck", the latest re-run with the harnesses as they are now — `lib/recheck_seeded.py`). Ids -a/-b: waves 1-2 (two per property); -c/-d/-e: waves 3 and 4 (three each per property, at least two of them needing a particular interleaving, history, boundary value or a fault/cancellation at a particular point).

%d changes: %d detected by the quick check as it is now, %d not detected, %d machinery trouble.

| id | property | change | needs | quick check now | result line | first result |
|---|---|---|---|---|---|---|
""" % (len(rows), counts["detected"], counts["not detected"], counts["trouble"])
open(os.path.join(VERIF, "seeded", "INDEX.md"), "w").write(head + "\n".join(rows) + "\n")
print("INDEX.md: %d rows, %s" % (len(rows), counts))
